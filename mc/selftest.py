"""Oracle self-tests (run by setup_cmd): hand-computed cases from the SVG specification."""
import sys


def main():
    import importlib, pkgutil
    import mc.tests as T

    n = 0
    for m in pkgutil.iter_modules(T.__path__):
        mod = importlib.import_module("mc.tests." + m.name)
        for name in dir(mod):
            if name.startswith("test_"):
                getattr(mod, name)()
                n += 1
    print(f"selftest ok: {n} oracle self-tests")
    return 0
