"""E3 - run one conversion under a CPU-time watchdog and an address-space limit.

The case runs in a fork of the calling worker.  Inside the child:
  * RLIMIT_AS bounds memory (MemoryError -> verdict MEMORY)
  * ITIMER_VIRTUAL ticks every 100 ms of *CPU* time (so load from other workers
    cannot cause a false TIMEOUT); the handler samples the element count of the
    tree being converted (growth trace) and raises Timeout (a BaseException)
    once the budget is used up
  * RLIMIT_CPU is a hard backstop; the parent additionally kills the child
    after a generous wall-clock time.
"""
import json
import os
import resource
import select
import signal
import time


class Timeout(BaseException):
    pass


def run_limited(fn, arg, cpu_budget_s=4.0, mem_bytes=1 << 30, wall_factor=25):
    """fn(arg, probe) -> JSON-able result; probe(obj) registers the live SVG for growth sampling.
    Returns dict(verdict=..., result=..., trace=[...], cpu_s=...)"""
    r, w = os.pipe()
    pid = os.fork()
    if pid == 0:
        os.close(r)
        state = {"svg": None, "ticks": 0, "trace": []}

        def probe(svg):
            state["svg"] = svg

        def on_tick(signum, frame):
            state["ticks"] += 1
            svg = state["svg"]
            if svg is not None and state["ticks"] % 2 == 0 and len(state["trace"]) < 60:
                try:
                    state["trace"].append(int(svg.svg_root.xpath("count(//*)")))
                except Exception:
                    pass
            if state["ticks"] * 0.1 >= cpu_budget_s:
                raise Timeout()

        out = {}
        try:
            resource.setrlimit(resource.RLIMIT_AS, (mem_bytes, mem_bytes))
            hard = int(cpu_budget_s * 3) + 5
            resource.setrlimit(resource.RLIMIT_CPU, (hard, hard))
            signal.signal(signal.SIGVTALRM, on_tick)
            signal.setitimer(signal.ITIMER_VIRTUAL, 0.1, 0.1)
            t0 = time.process_time()
            try:
                res = fn(arg, probe)
                out = {"verdict": "done", "result": res}
            except Timeout:
                out = {"verdict": "TIMEOUT"}
            except MemoryError:
                out = {"verdict": "MEMORY"}
            except RecursionError as e:
                out = {"verdict": "done", "result": {"outcome": "raised", "type": "RecursionError", "msg": str(e)[:200]}}
            signal.setitimer(signal.ITIMER_VIRTUAL, 0, 0)
            out["trace"] = state["trace"]
            out["cpu_s"] = round(time.process_time() - t0, 3)
            data = json.dumps(out, default=str).encode()
        except BaseException as e:  # noqa
            data = json.dumps({"verdict": "HARNESS", "error": f"{type(e).__name__}: {e}"}).encode()
        try:
            with os.fdopen(w, "wb") as f:
                f.write(data)
        finally:
            os._exit(0)
    os.close(w)
    deadline = time.time() + cpu_budget_s * wall_factor + 10
    buf = b""
    killed = False
    while True:
        left = deadline - time.time()
        if left <= 0:
            os.kill(pid, signal.SIGKILL)
            killed = True
            break
        rl, _, _ = select.select([r], [], [], min(left, 5))
        if rl:
            c = os.read(r, 1 << 16)
            if not c:
                break
            buf += c
    os.close(r)
    _, status = os.waitpid(pid, 0)
    if killed:
        return {"verdict": "TIMEOUT", "trace": [], "note": "wall-clock backstop"}
    if not buf:
        sig = status & 0x7F
        if sig == signal.SIGXCPU:
            return {"verdict": "TIMEOUT", "trace": [], "note": "RLIMIT_CPU"}
        if sig in (signal.SIGKILL, signal.SIGSEGV, signal.SIGABRT):
            return {"verdict": "MEMORY" if sig != signal.SIGSEGV else "CRASH", "trace": [], "note": f"signal {sig}"}
        return {"verdict": "CRASH", "trace": [], "note": f"status {status}"}
    return json.loads(buf.decode())
