"""Runner plumbing shared by all checks: worker pool, aggregation, evidence,
replay files, known-findings matching.

A property module (mc/props/cNN.py) exposes
    ID, LEVEL ("exploration" | "model_checking"), TECHNIQUE
    run(run: Run) -> None            fills the Run (enumerates its space, executes
                                     every case on the implementation)
    replay(case) -> list[violation]  re-executes one recorded case through the same oracle
Cases handed to workers are plain JSON-able dicts; `evaluate(case)` in the
module returns a *record*:
    {"out": str,                 outcome class (returned / raised:Type / ...)
     "nt": str|None,             canonical key if the case is non-trivial by the module's rule
     "viol": [violation, ...],   violation = {"sig": {...}, "case": case, "detail": {...}}
     "cnt": {name: int},         extra measured counters (compared points, ...)
     "sample": obj|None}
"""
import collections
import concurrent.futures as cf
import hashlib
import importlib
import itertools
import json
import multiprocessing as mp
import os
import signal
import sys
import time
import traceback

VERIF = os.path.dirname(os.path.dirname(os.path.abspath(__file__)))
NPROC = int(os.environ.get("VERIF_WORKERS", "16"))


def check_impl_location():
    import picosvg

    p = os.path.realpath(picosvg.__file__)
    want = os.path.realpath(os.environ.get("VERIF_REPO", "/repo")) + "/src/"
    if not p.startswith(want):
        print(f"HARNESS-ERROR picosvg imported from {p}, not {want}", flush=True)
        sys.exit(2)


def h64(s) -> int:
    if not isinstance(s, bytes):
        s = str(s).encode("utf-8", "surrogatepass")
    return int.from_bytes(hashlib.blake2b(s, digest_size=8).digest(), "big")


def hhex(obj) -> str:
    return hashlib.sha256(
        json.dumps(obj, sort_keys=True, default=str).encode("utf-8", "surrogatepass")
    ).hexdigest()[:16]


# --------------------------------------------------------------------------
# worker side


def _eval_chunk(modname, fnname, chunk):
    mod = importlib.import_module(modname)
    fn = getattr(mod, fnname)
    agg = {
        "n": 0,
        "out": collections.Counter(),
        "nt": set(),
        "viol": [],
        "cnt": collections.Counter(),
        "sample": None,
        "sets": {},
    }
    limit = int(os.environ.get("VERIF_CASE_TIMEOUT", "600"))

    class _CaseTimeout(BaseException):
        pass

    def _on_alarm(signum, frame):
        raise _CaseTimeout()

    try:
        signal.signal(signal.SIGALRM, _on_alarm)
    except ValueError:
        limit = 0
    for case in chunk:
        try:
            if limit:
                signal.alarm(limit)
            try:
                rec = fn(case)
            finally:
                if limit:
                    signal.alarm(0)
        except _CaseTimeout:
            # a case (block) that does not come back: report it instead of hanging the whole check
            rec = {
                "out": "CASE-TIMEOUT",
                "nt": None,
                "viol": [{"sig": {"kind": "case-timeout"}, "case": case, "detail": {"why": f"the case did not finish within {limit} s (hang in the implementation?)"}}],
            }
        except Exception as e:  # harness bug: never hide it
            rec = {
                "out": "HARNESS-EXC",
                "nt": None,
                "viol": [
                    {
                        "sig": {"kind": "harness-exception", "type": type(e).__name__},
                        "case": case,
                        "detail": {"traceback": traceback.format_exc()[-3000:]},
                    }
                ],
            }
        # a record may stand for a whole block of cases ("n", "outs", "nts")
        agg["n"] += rec.get("n", 1)
        if "outs" in rec:
            agg["out"].update(rec["outs"])
        else:
            agg["out"][rec.get("out", "returned")] += 1
        if rec.get("nt") is not None:
            agg["nt"].add(h64(rec["nt"]))
        for k in rec.get("nts", ()):
            agg["nt"].add(k if isinstance(k, int) else h64(k))
        if rec.get("viol"):
            if len(agg["viol"]) < 200:
                agg["viol"].extend(rec["viol"])
            agg["cnt"]["violating_cases"] += 1
        for k, v in (rec.get("cnt") or {}).items():
            agg["cnt"][k] += v
        for k, v in (rec.get("sets") or {}).items():
            agg["sets"].setdefault(k, set()).update(x if isinstance(x, int) else h64(x) for x in v)
        if rec.get("sample") is not None and agg["sample"] is None:
            agg["sample"] = rec["sample"]
    return agg


def chunks(it, n):
    it = iter(it)
    while True:
        c = list(itertools.islice(it, n))
        if not c:
            return
        yield c


def pmap_chunks(modname, fnname, cases, chunk=64, workers=None):
    """Yield aggregated results for chunks of cases, in parallel (fork)."""
    workers = workers or NPROC
    if workers <= 1:
        for c in chunks(cases, chunk):
            yield _eval_chunk(modname, fnname, c)
        return
    ctx = mp.get_context("fork")
    with cf.ProcessPoolExecutor(max_workers=workers, mp_context=ctx) as ex:
        pending = set()
        gen = chunks(cases, chunk)
        exhausted = False
        while True:
            while not exhausted and len(pending) < workers * 3:
                c = next(gen, None)
                if c is None:
                    exhausted = True
                    break
                pending.add(ex.submit(_eval_chunk, modname, fnname, c))
            if not pending:
                break
            done, pending = cf.wait(pending, return_when=cf.FIRST_COMPLETED)
            for f in done:
                yield f.result()


def pmap(fn, items, workers=None, chunksize=1):
    """Plain parallel map of a module-level function (results in order)."""
    workers = workers or NPROC
    ctx = mp.get_context("fork")
    with cf.ProcessPoolExecutor(max_workers=workers, mp_context=ctx) as ex:
        yield from ex.map(fn, items, chunksize=chunksize)


# --------------------------------------------------------------------------
# known findings


def load_known():
    p = os.path.join(VERIF, "known_findings.json")
    if not os.path.exists(p):
        return {"known": [], "fixed": []}
    with open(p) as f:
        return json.load(f)


def _match(entry_match, sig):
    for k, v in entry_match.items():
        if k not in sig:
            return False
        if isinstance(v, list):
            if sig[k] not in v:
                return False
        elif sig[k] != v:
            return False
    return True


# --------------------------------------------------------------------------
# Run


class Run:
    def __init__(self, pid, tier, seed, level):
        self.pid, self.tier, self.seed, self.level = pid, tier, seed, level
        self.t0 = time.time()
        self.evaluations = 0
        self.nt = set()
        self.out = collections.Counter()
        self.cnt = collections.Counter()
        self.violations = []
        self.sets = {}
        self.samples = []
        self.cov = {}  # extra coverage keys set by the module
        self.assumptions = []
        self.rule = ""
        self.exhaustive = True
        self.floor_nt = 2
        self.notes = []

    # -- aggregation
    def absorb(self, agg):
        self.evaluations += agg["n"]
        self.out.update(agg["out"])
        self.nt |= agg["nt"]
        self.cnt.update(agg["cnt"])
        for k, v in agg.get("sets", {}).items():
            self.sets.setdefault(k, set()).update(v)
        if len(self.violations) < 2000:
            self.violations.extend(agg["viol"])
        if agg.get("sample") is not None and len(self.samples) < 5:
            self.samples.append(agg["sample"])

    def run_cases(self, modname, cases, fnname="evaluate", chunk=64, workers=None):
        for agg in pmap_chunks(modname, fnname, cases, chunk=chunk, workers=workers):
            self.absorb(agg)

    def add_violation(self, sig, case, detail):
        self.violations.append({"sig": sig, "case": case, "detail": detail})

    def log(self, msg):
        print(f"[{self.pid} {self.tier} +{time.time()-self.t0:6.1f}s] {msg}", flush=True)

    # -- finishing
    def finish(self):
        known = [e for e in load_known().get("known", []) if e["property"] == self.pid]
        matched = collections.OrderedDict()
        unmatched = []
        for v in self.violations:
            sig = v.get("sig", {})
            hit = None
            for e in known:
                if _match(e.get("match", {}), sig):
                    hit = e
                    break
            if hit is not None:
                matched.setdefault(hit["id"], [hit, 0, v])
                matched[hit["id"]][1] += 1
            else:
                unmatched.append(v)

        # vacuity guard: a check that exercised nothing is broken, not passing
        vacuous = len(self.nt) < self.floor_nt

        cov = {
            "evaluations": int(self.evaluations),
            "distinct_nontrivial": int(len(self.nt)),
            "rule": self.rule,
            "samples": self.samples[:5] or ["(no sample recorded)"],
            "exhaustive": bool(self.exhaustive),
            "outcomes": dict(self.out),
            "counters": dict(self.cnt),
            "known_findings_hit": {k: m[1] for k, m in matched.items()},
        }
        for k, v in self.sets.items():
            cov[k] = len(v)
        cov.update(self.cov)
        ev = {
            "property_id": self.pid,
            "tier": self.tier,
            "seed": int(self.seed),
            "level": self.level,
            "coverage": cov,
            "assumptions": self.assumptions,
            "wall_s": round(time.time() - self.t0, 2),
            "violations": len(unmatched),
        }
        os.makedirs(os.path.join(VERIF, "evidence"), exist_ok=True)
        evp = os.path.join(VERIF, "evidence", f"{self.pid}.json")
        if os.environ.get("VERIF_NO_EVIDENCE"):  # mutant trials must not overwrite committed evidence
            evp = os.path.join("/tmp", f"verif-evidence-{self.pid}-{os.getpid()}.json")
        with open(evp, "w") as f:
            json.dump(ev, f, indent=1, sort_keys=True, default=str)
            f.write("\n")
        _validate_evidence(evp)
        if os.environ.get("VERIF_NO_EVIDENCE"):
            os.unlink(evp)

        rdir = os.path.join(VERIF, "replays", self.pid)
        if os.path.isdir(rdir):
            for fn in os.listdir(rdir):
                if fn.endswith(".json"):
                    os.unlink(os.path.join(rdir, fn))
        for kid, (e, n, v) in matched.items():
            print(f"KNOWN-FINDING: property={self.pid} {e['id']}: {e['what']} ({n} cases)", flush=True)
        rc = 0
        if unmatched:
            rc = 1
            seen = set()
            os.makedirs(os.path.join(VERIF, "replays", self.pid), exist_ok=True)
            printed = 0
            for v in unmatched:
                name = hhex([v.get("sig"), v.get("case")])
                if name in seen:
                    continue
                seen.add(name)
                if len(seen) > 60:
                    break
                path = os.path.join(VERIF, "replays", self.pid, name + ".json")
                with open(path, "w") as f:
                    json.dump(
                        {
                            "property": self.pid,
                            "tier": self.tier,
                            "seed": self.seed,
                            "sig": v.get("sig"),
                            "case": v.get("case"),
                            "detail": v.get("detail"),
                        },
                        f,
                        indent=1,
                        default=str,
                    )
                if printed < 25:
                    print(f"VIOLATION property={self.pid} replay={path}", flush=True)
                    d = v.get("detail") or {}
                    print(f"  sig={json.dumps(v.get('sig'), default=str)} {str(d.get('why',''))[:300]}", flush=True)
                    printed += 1
            hist = collections.Counter(json.dumps(v.get("sig"), sort_keys=True, default=str) for v in unmatched)
            for k, n in hist.most_common(15):
                print(f"  [{self.pid}] {n:6d} x {k}", flush=True)
            print(f"[{self.pid}] {len(unmatched)} unlisted violation record(s)", flush=True)
        if vacuous and rc == 0:
            print(
                f"HARNESS-ERROR property={self.pid} vacuous run: distinct_nontrivial={len(self.nt)} < floor {self.floor_nt}",
                flush=True,
            )
            rc = 2
        print(
            f"[{self.pid} {self.tier}] evaluations={self.evaluations} nontrivial={len(self.nt)} "
            f"violations={len(unmatched)} known={sum(m[1] for m in matched.values())} "
            f"outcomes={dict(self.out)} wall={time.time()-self.t0:.1f}s",
            flush=True,
        )
        return rc


def _validate_evidence(path):
    try:
        import jsonschema
    except Exception:
        return
    sp = os.path.join(VERIF, "schemas", "EVIDENCE.schema.json")
    if not os.path.exists(sp):
        sp = "/root/.vp/EVIDENCE.schema.json"
    if not os.path.exists(sp):
        return
    with open(sp) as f:
        schema = json.load(f)
    with open(path) as f:
        ev = json.load(f)
    try:
        jsonschema.validate(ev, schema)
    except jsonschema.ValidationError as e:
        print(f"HARNESS-ERROR evidence does not validate: {e.message}", flush=True)
        sys.exit(2)
