"""R2 - reference affine algebra, SVG transform-list semantics and the
viewBox -> viewport algorithm, written from SVG 1.1 chapter 7 (coords.html).
Matrices are 6-tuples (a, b, c, d, e, f) meaning
    | a c e |
    | b d f |
    | 0 0 1 |
acting on column vectors.  Entries may be ints, Fractions or floats."""
import math
from fractions import Fraction

I = (1, 0, 0, 1, 0, 0)


def mul(m, n):
    """m x n  (n is applied to the point first)"""
    a1, b1, c1, d1, e1, f1 = m
    a2, b2, c2, d2, e2, f2 = n
    return (
        a1 * a2 + c1 * b2,
        b1 * a2 + d1 * b2,
        a1 * c2 + c1 * d2,
        b1 * c2 + d1 * d2,
        a1 * e2 + c1 * f2 + e1,
        b1 * e2 + d1 * f2 + f1,
    )


def apply(m, p):
    a, b, c, d, e, f = m
    x, y = p
    return (a * x + c * y + e, b * x + d * y + f)


def det(m):
    return m[0] * m[3] - m[1] * m[2]


def inv(m):
    a, b, c, d, e, f = m
    D = a * d - b * c
    if D == 0:
        return None
    if isinstance(D, int):
        D = Fraction(D)
    ia, ib, ic, id_ = d / D, -b / D, -c / D, a / D
    return (ia, ib, ic, id_, -(ia * e + ic * f), -(ib * e + id_ * f))


def op_matrix(name, args):
    """SVG 1.1 7.6: the matrix of one transform definition."""
    if name == "matrix":
        if len(args) != 6:
            raise ValueError("matrix needs 6")
        return tuple(args)
    if name == "translate":
        if len(args) not in (1, 2):
            raise ValueError
        tx = args[0]
        ty = args[1] if len(args) == 2 else 0
        return (1, 0, 0, 1, tx, ty)
    if name == "scale":
        if len(args) not in (1, 2):
            raise ValueError
        sx = args[0]
        sy = args[1] if len(args) == 2 else sx
        return (sx, 0, 0, sy, 0, 0)
    if name == "rotate":
        if len(args) not in (1, 3):
            raise ValueError
        a = math.radians(args[0])
        r = (math.cos(a), math.sin(a), -math.sin(a), math.cos(a), 0, 0)
        if len(args) == 3:
            cx, cy = args[1], args[2]
            return mul(mul((1, 0, 0, 1, cx, cy), r), (1, 0, 0, 1, -cx, -cy))
        return r
    if name == "skewX":
        if len(args) != 1:
            raise ValueError
        return (1, 0, math.tan(math.radians(args[0])), 1, 0, 0)
    if name == "skewY":
        if len(args) != 1:
            raise ValueError
        return (1, math.tan(math.radians(args[0])), 0, 1, 0, 0)
    raise ValueError(name)


def list_matrix(ops):
    """ops: [(name, [args])] in the order listed: M = M1 x M2 x ... x Mn."""
    m = I
    for name, args in ops:
        m = mul(m, op_matrix(name, args))
    return m


# --- transform-list grammar (SVG 1.1 7.6.1), own tokenizer -------------------

_WSP = " \t\r\n"


def parse_transform_list(s):
    """-> [(name, [floats])] or raises ValueError if s does not conform.
    Accepts SVG 1.1 plus adjacency of transforms without separator (CSS/SVG 2)."""
    i, n = 0, len(s)
    out = []

    def wsp():
        nonlocal i
        while i < n and s[i] in _WSP:
            i += 1

    wsp()
    first = True
    while i < n:
        if not first:
            # comma-wsp* between transforms
            saw_comma = False
            while i < n and (s[i] in _WSP or s[i] == ","):
                if s[i] == ",":
                    if saw_comma:
                        raise ValueError("double comma")
                    saw_comma = True
                i += 1
            if i >= n:
                if saw_comma:
                    raise ValueError("trailing comma")
                break
        first = False
        for name in ("matrix", "translate", "scale", "rotate", "skewX", "skewY"):
            if s.startswith(name, i):
                i += len(name)
                break
        else:
            raise ValueError(f"unknown transform at {i}")
        wsp()
        if i >= n or s[i] != "(":
            raise ValueError("( expected")
        i += 1
        wsp()
        args = []
        while True:
            j = i
            if i < n and s[i] in "+-":
                i += 1
            d0 = i
            while i < n and s[i].isdigit() and s[i] in "0123456789":
                i += 1
            hadint = i > d0
            hadfrac = False
            if i < n and s[i] == ".":
                i += 1
                f0 = i
                while i < n and s[i] in "0123456789":
                    i += 1
                hadfrac = i > f0
            if not (hadint or hadfrac):
                raise ValueError(f"number expected at {j}")
            if i < n and s[i] in "eE":
                k = i + 1
                if k < n and s[k] in "+-":
                    k += 1
                e0 = k
                while k < n and s[k] in "0123456789":
                    k += 1
                if k == e0:
                    raise ValueError("bad exponent")
                i = k
            args.append(float(s[j:i]))
            # comma-wsp or ")"
            k = i
            wsp()
            if i < n and s[i] == ")":
                i += 1
                break
            if i < n and s[i] == ",":
                i += 1
                wsp()
            elif i == k:
                raise ValueError(f"separator expected at {i}")
        out.append((name, args))
        op_matrix(name, args)  # arity check
    return out


# --- viewBox -> viewport (SVG 1.1 7.8 / SVG 2 8.2 algorithm) -----------------


def viewbox_transform(vb, vp, align="xMidYMid", mos="meet"):
    """vb, vp = (x, y, w, h).  Returns matrix mapping viewBox coords to viewport coords."""
    vbx, vby, vbw, vbh = vb
    ex, ey, ew, eh = vp
    sx = Fraction(ew) / Fraction(vbw) if not isinstance(ew, float) and not isinstance(vbw, float) else ew / vbw
    sy = Fraction(eh) / Fraction(vbh) if not isinstance(eh, float) and not isinstance(vbh, float) else eh / vbh
    if align != "none":
        if mos == "slice":
            sx = sy = max(sx, sy)
        else:
            sx = sy = min(sx, sy)
    tx = ex - vbx * sx
    ty = ey - vby * sy
    if align != "none":
        if "xMid" in align:
            tx += (ew - vbw * sx) / 2
        if "xMax" in align:
            tx += ew - vbw * sx
        if "YMid" in align:
            ty += (eh - vbh * sy) / 2
        if "YMax" in align:
            ty += eh - vbh * sy
    return (sx, 0, 0, sy, tx, ty)


ALIGNS = ["none"] + [f"x{a}Y{b}" for a in ("Min", "Mid", "Max") for b in ("Min", "Mid", "Max")]
