"""Three-valued reference classifier for the ideal SVG stroke region
(SVG 1.1 11.4 / SVG 2 13.5), evaluated in the shape's own coordinate system.

classify(subpaths, style, pts) -> int array: 1 definitely inside, 0 definitely outside, -1 undecided.

subpaths: list of dicts {"pts": [(x,y)...], "corner": [bool...], "closed": bool}
  "pts" is the flattened polyline (for closed subpaths the start point is NOT repeated),
  corner[i] says whether vertex i is a true path vertex (join) or an interior point of a flattened curve.
style: dict width, cap, join, miterlimit, dash (list, already even-length or empty), offset
"""
import math

import numpy as np

DELTA = 0.5


def _on_intervals(total, dash, offset, zeros=None):
    """arclength on-intervals [(s0, s1)] within [0,total]; arclengths of zero-length dashes are appended to `zeros`"""
    if not dash or sum(dash) <= 0 or any(d < 0 for d in dash):
        return [(0.0, total)], False
    period = sum(dash)
    # position in the pattern at arclength 0
    pos = offset % period
    # find which dash we are in
    out = []
    s = -pos
    k = 0
    while s < total:
        d = dash[k % len(dash)]
        if k % 2 == 0 and d > 0:
            a, b = max(s, 0.0), min(s + d, total)
            if b > a:
                out.append((a, b))
        elif k % 2 == 0 and d == 0 and zeros is not None and 0.0 <= s <= total:
            zeros.append(s)
        s += d
        k += 1
        if k > 100000:
            break
    return out, True


def _clip_polyline(P, cum, s0, s1):
    """segments (a,b) of polyline P (with cumulative arclength cum) between arclengths s0<s1"""
    segs = []
    for i in range(len(P) - 1):
        a, b = cum[i], cum[i + 1]
        if b <= s0 or a >= s1 or b == a:
            continue
        t0 = max(0.0, (s0 - a) / (b - a))
        t1 = min(1.0, (s1 - a) / (b - a))
        p, q = P[i], P[i + 1]
        segs.append(((p[0] + (q[0] - p[0]) * t0, p[1] + (q[1] - p[1]) * t0), (p[0] + (q[0] - p[0]) * t1, p[1] + (q[1] - p[1]) * t1)))
    return segs


def _point_at(P, cum, s):
    for i in range(len(P) - 1):
        a, b = cum[i], cum[i + 1]
        if a <= s <= b and b > a:
            t = (s - a) / (b - a)
            p, q = P[i], P[i + 1]
            d = (q[0] - p[0], q[1] - p[1])
            L = math.hypot(*d)
            return (p[0] + d[0] * t, p[1] + d[1] * t), (d[0] / L, d[1] / L)
    return None, None


def _dist_segments(pts, segs):
    """-> (dist (N,), foot_inside (N,) bool for the nearest... ) we return min distance and,
    separately, min distance among segments where the perpendicular foot is interior."""
    if not segs:
        n = len(pts)
        return np.full(n, np.inf), np.full(n, np.inf)
    S = np.asarray(segs, dtype=float)  # (M,2,2)
    A, B = S[:, 0, :], S[:, 1, :]
    D = B - A
    L = (D * D).sum(1)
    Ls = np.where(L == 0, 1.0, L)
    W = pts[:, None, :] - A[None, :, :]
    t = (W * D[None, :, :]).sum(2) / Ls[None, :]
    tc = t.clip(0.0, 1.0)
    C = A[None, :, :] + tc[:, :, None] * D[None, :, :]
    d = np.sqrt(((pts[:, None, :] - C) ** 2).sum(2))
    dmin = d.min(1)
    interior = (t >= 0.0) & (t <= 1.0) & (L[None, :] > 0)
    dint = np.where(interior, d, np.inf).min(1)
    return dmin, dint


def classify(subpaths, style, pts, delta=DELTA):
    pts = np.asarray(pts, dtype=float)
    n = len(pts)
    w = float(style["width"])
    half = w / 2.0
    cap, join = style.get("cap", "butt"), style.get("join", "miter")
    ml = float(style.get("miterlimit", 4))
    dash = list(style.get("dash") or [])
    offset = float(style.get("offset", 0.0))
    inside = np.zeros(n, dtype=bool)
    out_pieces = []
    extra_unknown_pts = []  # zero-length subpaths: (point)
    rin = half - delta
    for sp in subpaths:
        P = list(sp["pts"])
        corner = list(sp["corner"])
        closed = sp["closed"]
        if closed and len(P) >= 1:
            P = P + [P[0]]
            corner = corner + [True]
        if len(P) < 2 or all(p == P[0] for p in P):
            if P:
                extra_unknown_pts.append(P[0])
            continue
        cum = [0.0]
        for i in range(len(P) - 1):
            cum.append(cum[-1] + math.hypot(P[i + 1][0] - P[i][0], P[i + 1][1] - P[i][1]))
        total = cum[-1]
        zeros = []
        ivs, dashed = _on_intervals(total, dash, offset, zeros)
        # merge on-intervals separated by a zero-length gap ("5 0 5 10"): no dash end there
        merged = []
        for iv in ivs:
            if merged and abs(merged[-1][1] - iv[0]) < 1e-12:
                merged[-1] = (merged[-1][0], iv[1])
            else:
                merged.append(iv)
        ivs = merged
        if cap != "butt":
            # a zero-length dash is drawn as a dot (round) / square by its caps: whatever lies within reach of it is undecided
            for sz in zeros:
                E, _T = _point_at(P, cum, min(max(sz, 0.0), total))
                if E is not None:
                    out_pieces.append((tuple(E), tuple(E)))
        for s0, s1 in ivs:
            whole_closed = closed and not dashed
            # outside test pieces: grown
            out_pieces += _clip_polyline(P, cum, max(0.0, s0 - delta), min(total, s1 + delta))
            if rin <= 0:
                continue
            a, b = (s0, s1) if whole_closed else (s0 + delta, s1 - delta)
            if b <= a:
                continue
            segs = _clip_polyline(P, cum, a, b)
            dmin, dint = _dist_segments(pts, segs)
            inside |= dint < rin
            # vertex discs
            for i in range(len(P)):
                sv = cum[i]
                if i == len(P) - 1 and closed:
                    continue  # same point as vertex 0
                if whole_closed:
                    ok = True
                else:
                    if closed and i == 0:
                        continue  # start of a closed, dashed subpath: first/last dash merge is undecided
                    ok = (sv - s0 >= half + delta) and (s1 - sv >= half + delta)
                if not ok:
                    continue
                if corner[i] and join != "round":
                    continue
                c = np.asarray(P[i], dtype=float)
                inside |= ((pts - c) ** 2).sum(1) < rin * rin
            # caps at true interval ends
            if not whole_closed and (s1 - s0) > 2 * delta and cap in ("round", "square"):
                for s_end, sign in ((s0, -1.0), (s1, 1.0)):
                    if closed and (s_end <= 0.0 or s_end >= total):
                        continue  # arclength 0 / total of a closed subpath: merged into a join, undecided
                    E, T = _point_at(P, cum, s_end)
                    if E is None:
                        continue
                    E = np.asarray(E)
                    Tn = np.asarray(T) * sign
                    rel = pts - E
                    along = rel @ Tn
                    if cap == "round":
                        # the half disc on the outward side only: the other half belongs to the
                        # stroke body, which need not continue straight (corner right after the end)
                        inside |= (along >= 0) & ((rel ** 2).sum(1) < rin * rin)
                    else:
                        across = rel @ np.asarray([-Tn[1], Tn[0]])
                        inside |= (along >= 0) & (along < rin) & (np.abs(across) < rin)
    # farthest the stroke can reach from the path: w/2, sqrt(2) w/2 at square caps, and at a miter join
    # (w/2)/sin(theta/2) - but only where that ratio does not exceed the miter limit (otherwise the join is a bevel)
    reach = math.sqrt(2) if cap == "square" else 1.0
    if join == "miter":
        for sp in subpaths:
            P = list(sp["pts"])
            cn = list(sp["corner"])
            m = len(P)
            if m < 3:
                continue
            idxs = range(m) if sp["closed"] else range(1, m - 1)
            for i in idxs:
                if not cn[i]:
                    continue
                a, b, c = P[i - 1], P[i], P[(i + 1) % m]
                u = (a[0] - b[0], a[1] - b[1])
                v = (c[0] - b[0], c[1] - b[1])
                lu, lv = math.hypot(*u), math.hypot(*v)
                if lu == 0 or lv == 0:
                    reach = max(reach, ml)
                    continue
                cosang = max(-1.0, min(1.0, (u[0] * v[0] + u[1] * v[1]) / (lu * lv)))
                half_ang = math.acos(cosang) / 2.0
                ratio = 1.0 / math.sin(half_ang) if half_ang > 1e-9 else float("inf")
                if ratio <= ml * 1.02:
                    reach = max(reach, ratio)
    bound = half * max(1.0, reach) + delta
    if out_pieces:
        dmin, _ = _dist_segments(pts, out_pieces)
    else:
        dmin = np.full(n, np.inf)
    for p in extra_unknown_pts:
        d = np.sqrt(((pts - np.asarray(p, dtype=float)) ** 2).sum(1))
        dmin = np.minimum(dmin, d)
    outside = dmin > bound
    res = np.full(n, -1, dtype=int)
    res[outside] = 0
    res[inside & ~outside] = 1
    return res
