"""R4 - validator for the picosvg grammar as documented in README.md and restated
in property C01.  Works on the serialised output string; parses with the
stdlib expat-based ElementTree (not lxml) and uses R1 for path data."""
import re
import xml.etree.ElementTree as ET

from mc.ref import pathdata as R1

SVG = "http://www.w3.org/2000/svg"
XLINK = "http://www.w3.org/1999/xlink"

# inherited properties of SVG 1.1 (property index) that may appear as presentation attributes
INHERITED = {
    "clip-rule", "color", "color-interpolation", "color-interpolation-filters", "color-rendering", "cursor",
    "direction", "fill", "fill-opacity", "fill-rule", "font", "font-family", "font-size", "font-size-adjust",
    "font-stretch", "font-style", "font-variant", "font-weight", "glyph-orientation-horizontal",
    "glyph-orientation-vertical", "image-rendering", "kerning", "letter-spacing", "marker", "marker-end",
    "marker-mid", "marker-start", "pointer-events", "shape-rendering", "stroke", "stroke-dasharray",
    "stroke-dashoffset", "stroke-linecap", "stroke-linejoin", "stroke-miterlimit", "stroke-opacity",
    "stroke-width", "text-anchor", "text-rendering", "visibility", "word-spacing", "writing-mode",
}
# presentation attributes that are not inherited but that the conversion promises to consume
ROOT_FORBIDDEN = INHERITED | {"opacity", "transform", "clip-path", "style", "display"}
BASIC_SHAPES = {"rect", "circle", "ellipse", "line", "polygon", "polyline"}
GRAD_NUM = {"x1", "y1", "x2", "y2", "cx", "cy", "r", "fx", "fy", "fr"}
TEXT_TAGS = {"text", "tspan", "textPath"}
_NUM = re.compile(r"^[-+]?(?:\d+\.?\d*|\.\d+)(?:[eE][-+]?\d+)?$")


def split(tag):
    if isinstance(tag, str) and tag.startswith("{"):
        ns, _, local = tag[1:].partition("}")
        return ns, local
    return None, tag


def parse_style(s):
    out = {}
    for decl in (s or "").split(";"):
        if ":" in decl:
            k, _, v = decl.partition(":")
            out[k.strip()] = v.strip()
    return out


def parse_xml(text):
    parser = ET.XMLParser(target=ET.TreeBuilder(insert_comments=True, insert_pis=True))
    return ET.fromstring(text, parser=parser)


def prop(el, name):
    st = parse_style(el.get("style"))
    if name in st:
        return st[name]
    return el.get(name)


def validate(text, ndigits=3, allow_text=False, require_stops=False):
    """-> list of complaint strings (empty = conforms)."""
    bad = []
    try:
        root = parse_xml(text)
    except ET.ParseError as e:
        return [f"output is not well-formed XML: {e}"]
    ns, local = split(root.tag)
    if (ns, local) != (SVG, "svg"):
        return [f"root is {root.tag}"]
    for a in root.attrib:
        ans, al = split(a)
        if ans is None and al in ROOT_FORBIDDEN:
            bad.append(f"root svg carries presentation attribute {al}={root.get(a)!r}")
    kids = list(root)
    if not kids or split(kids[0].tag) != (SVG, "defs"):
        bad.append("first child of root is not defs")

    def walk(el, path, in_defs, in_text):
        for i, ch in enumerate(el):
            if ch.tag is ET.Comment:
                bad.append(f"comment survives at {path}")
                continue
            if ch.tag is ET.ProcessingInstruction:
                bad.append(f"processing instruction survives at {path}")
                continue
            cns, cl = split(ch.tag)
            p = f"{path}/{cl}[{i}]"
            if cns != SVG:
                bad.append(f"foreign-namespace element {ch.tag} at {p}")
                continue
            for a, v in ch.attrib.items():
                ans, al = split(a)
                if ans == XLINK or al == "href":
                    bad.append(f"href {a}={v!r} at {p}")
                elif ans is not None and ans != SVG:
                    bad.append(f"foreign-namespace attribute {a} at {p}")
            if cl == "defs":
                if el is not root or i != 0:
                    bad.append(f"extra defs at {p}")
                for g in ch:
                    if g.tag in (ET.Comment, ET.ProcessingInstruction):
                        continue
                    gns, gl = split(g.tag)
                    gp = f"{p}/{gl}"
                    if gns != SVG or gl not in ("linearGradient", "radialGradient"):
                        bad.append(f"defs holds {gl} (only gradients allowed)")
                        continue
                    if not g.get("id"):
                        bad.append(f"gradient without id in defs")
                    for a, v in g.attrib.items():
                        if a in GRAD_NUM and not _NUM.match(v.strip()):
                            bad.append(f"gradient {g.get('id')} has non-numeric {a}={v!r}")
                        if a == "gradientTransform":
                            # a transform list over numbers of the SVG number grammar ("inf" and "nan" are not numbers)
                            inner = re.sub(r"[A-Za-z]+\s*\(", " ", v).replace(")", " ").replace(",", " ").split()
                            if not inner or any(not _NUM.match(tok) for tok in inner):
                                bad.append(f"gradient {g.get('id')} has a gradientTransform with non-numeric arguments: {v!r}")
                    for st in g:
                        if st.tag in (ET.Comment, ET.ProcessingInstruction):
                            continue
                        if split(st.tag) != (SVG, "stop"):
                            bad.append(f"gradient {g.get('id')} has child {st.tag}")
                    if require_stops and len([s for s in g if split(s.tag) == (SVG, "stop")]) == 0:
                        bad.append(f"gradient {g.get('id')} has no stops of its own")
                walk(ch, p, True, False)
                continue
            if in_defs:
                walk(ch, p, True, False)
                continue
            if in_text:
                if cl not in TEXT_TAGS:
                    bad.append(f"{cl} inside text at {p}")
                walk(ch, p, False, True)
                continue
            if cl == "g":
                n_el = len([c for c in ch if c.tag not in (ET.Comment, ET.ProcessingInstruction)])
                if n_el < 2:
                    bad.append(f"group with {n_el} element children survives at {p}")
                attrs = set(ch.attrib)
                if attrs != {"opacity"}:
                    bad.append(f"group at {p} carries attributes {sorted(attrs)} (only opacity allowed)")
                else:
                    try:
                        o = float(ch.get("opacity"))
                        if not (0 < o < 1):
                            bad.append(f"group at {p} has opacity {o} (must be strictly between 0 and 1)")
                    except ValueError:
                        bad.append(f"group at {p} has opacity {ch.get('opacity')!r}")
                walk(ch, p, False, False)
            elif cl == "path":
                if len(ch):
                    bad.append(f"path with children at {p}")
                stroke = prop(ch, "stroke")
                if stroke not in (None, "", "none"):
                    bad.append(f"path at {p} has stroke {stroke!r}")
                for nm in ("transform", "clip-path"):
                    if prop(ch, nm) not in (None, ""):
                        bad.append(f"path at {p} has {nm}={prop(ch, nm)!r}")
                fr = prop(ch, "fill-rule")
                if fr not in (None, "", "nonzero"):
                    bad.append(f"path at {p} has fill-rule {fr!r}")
                # "a plain fill": what a path says it says in presentation attributes; a leftover style declaration list
                # (e.g. vendor properties the conversion could not turn into attributes) is not part of the subset
                if (ch.get("style") or "").strip():
                    bad.append(f"path at {p} carries a style attribute {ch.get('style')!r}")
                d = ch.get("d") or ""
                try:
                    cmds = R1.exploded(R1.parse(d))
                except R1.Reject as e:
                    bad.append(f"path at {p}: d={d[:80]!r} is not valid path data ({e})")
                    cmds = []
                for c, args in cmds:
                    if c not in "MLCQAZ":
                        bad.append(f"path at {p} uses command {c!r}")
                        break
                else:
                    for c, args in cmds if ndigits is not None else ():
                        idx = range(len(args)) if c != "A" else (0, 1, 2, 5, 6)
                        for k in idx:
                            x = args[k]
                            if round(x, ndigits) != x:
                                bad.append(f"path at {p}: {x!r} in {c} is not rounded to {ndigits} digits")
                                break
                        else:
                            continue
                        break
            elif cl in TEXT_TAGS and allow_text:
                walk(ch, p, False, True)
            else:
                kind = "basic shape" if cl in BASIC_SHAPES else ("nested svg" if cl == "svg" else cl)
                bad.append(f"{kind} element survives at {p}")
        return

    walk(root, "/svg", False, False)
    if len(bad) > 12:
        bad = bad[:12] + [f"... {len(bad) - 12} more"]
    return bad


def unused_foreign_xmlns(text):
    """number of xmlns:prefix declarations other than xlink (reported, not judged)"""
    return len([m for m in re.findall(r'xmlns:([\w.-]+)="([^"]*)"', text) if m[1] not in (XLINK, SVG)])
