"""R1 - reference model for SVG path data, written from the SVG 1.1 / SVG 2
specification text (paths.html BNF, implnote.html F.6).  Shares no code with
picosvg and does not call Skia.

(a) parse(s)           character-level greedy recursive-descent parser for the path BNF
(b) interpret(cmds)    command sequence -> list of subpaths of absolute segments
(c) sampling / flattening, signed area, two-sided distance, exact extrema boxes
"""
import math

WSP = " \t\r\n"
DIGITS = "0123456789"
CMDS = "MmZzLlHhVvCcSsQqTtAa"
NARGS = {"m": 2, "z": 0, "l": 2, "h": 1, "v": 1, "c": 6, "s": 4, "q": 4, "t": 2, "a": 7}


class Reject(Exception):
    pass


# ---------------------------------------------------------------------------
# (a) grammar


class _P:
    def __init__(self, s):
        self.s = s
        self.i = 0
        self.n = len(s)
        self.toks = []  # (start, end, kind) of every number / flag token

    def peek(self):
        return self.s[self.i] if self.i < self.n else ""

    def wsp_star(self):
        while self.i < self.n and self.s[self.i] in WSP:
            self.i += 1

    def comma_wsp_opt(self):
        # comma-wsp: (wsp+ comma? wsp*) | (comma wsp*)
        self.wsp_star()
        if self.peek() == ",":
            self.i += 1
            self.wsp_star()

    def digit_seq(self):
        j = self.i
        while self.i < self.n and self.s[self.i] in DIGITS:
            self.i += 1
        return self.i > j

    def number(self, signed=True):
        """number: sign? (integer-constant | floating-point-constant); greedy."""
        start = self.i
        if self.peek() in "+-" and self.peek() != "":
            if not signed:
                raise Reject(f"sign not allowed at {self.i}")
            self.i += 1
        had_int = self.digit_seq()
        had_frac = False
        if self.peek() == ".":
            # fractional-constant: digit-sequence? "." digit-sequence | digit-sequence "."
            save = self.i
            self.i += 1
            had_frac = self.digit_seq()
            if not had_frac and not had_int:
                self.i = save
                raise Reject(f"lone dot at {save}")
        elif not had_int:
            raise Reject(f"number expected at {start}")
        # exponent: greedy; "consume as much as possible": an 'e' that is not
        # followed by a well-formed exponent is an error in the data
        if self.peek() in ("e", "E"):
            self.i += 1
            if self.peek() in "+-" and self.peek() != "":
                self.i += 1
            if not self.digit_seq():
                raise Reject(f"bad exponent at {self.i}")
        text = self.s[start : self.i]
        self.toks.append((start, self.i, "n"))
        return float(text)

    def flag(self):
        c = self.peek()
        if c not in ("0", "1") or c == "":
            raise Reject(f"flag expected at {self.i}")
        self.i += 1
        self.toks.append((self.i - 1, self.i, "f"))
        return int(c)

    def starts_number(self):
        c = self.peek()
        return c != "" and (c in DIGITS or c in "+-.")


def features(s, toks):
    """Lexical features of an accepted string that the tokenizer is sensitive to."""
    f = set()
    for k, (a, b, kind) in enumerate(toks):
        t = s[a:b]
        if k + 1 < len(toks) and toks[k + 1][0] == b:
            f.add("adjacent")
        if kind == "f":
            if (k + 1 < len(toks) and toks[k + 1][0] == b) or (k and toks[k - 1][1] == a):
                f.add("compactflag")
            continue
        u = t.lstrip("+-")
        if len(u) > 1 and u[0] == "0" and u[1] in DIGITS:
            f.add("leadingzero")
        if "e" in t or "E" in t:
            f.add("exponent")
        if t.startswith("+"):
            f.add("plus")
        if u.startswith(".") or u.endswith("."):
            f.add("baredot")
    if any(c in s for c in "\t\r\n"):
        f.add("wsp")
    return f


def parse(s, svg2=True, want_tokens=False):
    """Return the grammar's command sequence for s, unexploded:
    [(cmd, [arg-tuple, ...])] or raise Reject.  svg2=True accepts the SVG 2
    relaxations too (signed radii, optional comma-wsp before the first flag);
    every string accepted by either grammar has the same meaning in both."""
    p = _P(s)
    out = []
    p.wsp_star()
    first = True
    while p.i < p.n:
        c = p.peek()
        if c not in CMDS:
            raise Reject(f"unexpected {c!r} at {p.i}")
        if first and c not in "Mm":
            raise Reject("path must start with moveto")
        first = False
        p.i += 1
        lc = c.lower()
        groups = []
        if lc == "z":
            out.append((c, groups))
            p.wsp_star()
            continue
        p.wsp_star()
        while True:
            if lc == "a":
                rx = p.number(signed=svg2)
                p.comma_wsp_opt()
                ry = p.number(signed=svg2)
                p.comma_wsp_opt()
                rot = p.number()
                if svg2:
                    p.comma_wsp_opt()
                else:
                    j = p.i
                    p.comma_wsp_opt()
                    if p.i == j:
                        raise Reject("comma-wsp required before flag")
                fa = p.flag()
                p.comma_wsp_opt()
                fs = p.flag()
                p.comma_wsp_opt()
                x = p.number()
                p.comma_wsp_opt()
                y = p.number()
                groups.append((rx, ry, rot, fa, fs, x, y))
            else:
                n = NARGS[lc]
                args = []
                for k in range(n):
                    if k:
                        p.comma_wsp_opt()
                    args.append(p.number())
                groups.append(tuple(args))
            # another argument group?  comma-wsp? then a number start
            save = p.i
            p.comma_wsp_opt()
            if p.starts_number():
                continue
            # no further group: a consumed comma would be a trailing comma -> error
            if "," in p.s[save : p.i]:
                raise Reject(f"dangling comma at {save}")
            break
        out.append((c, groups))
    if want_tokens:
        return out, p.toks
    return out


def exploded(parsed):
    """[(cmd, args)] one entry per argument group; moveto repeats become lineto."""
    res = []
    for c, groups in parsed:
        if c in "Zz":
            res.append((c, ()))
            continue
        for k, g in enumerate(groups):
            cc = c
            if k and c in "Mm":
                cc = "L" if c == "M" else "l"
            res.append((cc, tuple(g)))
    return res


def unexploded(parsed):
    res = []
    for c, groups in parsed:
        flat = tuple(x for g in groups for x in g)
        res.append((c, flat))
    return res


# ---------------------------------------------------------------------------
# (b) interpreter


def interpret(cmds):
    """cmds: exploded [(cmd, args)].  Returns list of subpaths
    {"start": (x,y), "segs": [seg...], "closed": bool} with absolute segments
      ("L", p0, p1) ("Q", p0, c, p1) ("C", p0, c1, c2, p1)
      ("A", p0, rx, ry, rot, large, sweep, p1)
    Rules (SVG 1.1 8.3): a leading relative moveto is absolute; after closepath
    the current point is the subpath start and a following drawing command
    starts a new subpath there; S reflects the previous control point only
    after C/S, T only after Q/T, otherwise the control point is the current point."""
    subs = []
    cur = (0.0, 0.0)
    start = (0.0, 0.0)
    sub = None
    prev_fam = None  # "C" or "Q"
    prev_ctrl = None
    firstcmd = True

    def begin(at):
        nonlocal sub
        sub = {"start": at, "segs": [], "closed": False}
        subs.append(sub)

    for c, a in cmds:
        lc = c.lower()
        rel = c.islower()
        ox, oy = (cur if rel else (0.0, 0.0))
        # a leading relative moveto is absolute: cur is (0,0) then, so nothing to do
        firstcmd = False
        fam = None
        ctrl = None
        if lc == "m":
            cur = (ox + a[0], oy + a[1])
            start = cur
            begin(cur)
        elif lc == "z":
            if sub is None or sub["closed"]:
                begin(start)
            sub["closed"] = True
            cur = start
        else:
            if sub is None or sub["closed"]:
                begin(cur)
            p0 = cur
            if lc == "l":
                p1 = (ox + a[0], oy + a[1])
                sub["segs"].append(("L", p0, p1))
            elif lc == "h":
                p1 = ((cur[0] + a[0]) if rel else a[0], cur[1])
                sub["segs"].append(("L", p0, p1))
            elif lc == "v":
                p1 = (cur[0], (cur[1] + a[0]) if rel else a[0])
                sub["segs"].append(("L", p0, p1))
            elif lc == "c":
                c1 = (ox + a[0], oy + a[1])
                c2 = (ox + a[2], oy + a[3])
                p1 = (ox + a[4], oy + a[5])
                sub["segs"].append(("C", p0, c1, c2, p1))
                fam, ctrl = "C", c2
            elif lc == "s":
                if prev_fam == "C":
                    c1 = (2 * cur[0] - prev_ctrl[0], 2 * cur[1] - prev_ctrl[1])
                else:
                    c1 = cur
                c2 = (ox + a[0], oy + a[1])
                p1 = (ox + a[2], oy + a[3])
                sub["segs"].append(("C", p0, c1, c2, p1))
                fam, ctrl = "C", c2
            elif lc == "q":
                c1 = (ox + a[0], oy + a[1])
                p1 = (ox + a[2], oy + a[3])
                sub["segs"].append(("Q", p0, c1, p1))
                fam, ctrl = "Q", c1
            elif lc == "t":
                if prev_fam == "Q":
                    c1 = (2 * cur[0] - prev_ctrl[0], 2 * cur[1] - prev_ctrl[1])
                else:
                    c1 = cur
                p1 = (ox + a[0], oy + a[1])
                sub["segs"].append(("Q", p0, c1, p1))
                fam, ctrl = "Q", c1
            elif lc == "a":
                p1 = (ox + a[5], oy + a[6])
                # F.6.2: identical end points => the segment is omitted entirely
                if p1 != p0:
                    sub["segs"].append(("A", p0, a[0], a[1], a[2], int(a[3]), int(a[4]), p1))
            else:
                raise ValueError(c)
            cur = p1
        prev_fam, prev_ctrl = fam, ctrl
    return subs


def interpret_string(s):
    return interpret(exploded(parse(s)))


# ---------------------------------------------------------------------------
# arcs (implnote F.6)


def arc_center(p0, rx, ry, rot_deg, large, sweep, p1):
    """F.6.5 + F.6.6: returns None for a line / omitted segment, else
    (cx, cy, rx, ry, phi, theta1, dtheta) with corrected radii."""
    x1, y1 = p0
    x2, y2 = p1
    if x1 == x2 and y1 == y2:
        return None
    rx, ry = abs(rx), abs(ry)
    if rx == 0 or ry == 0:
        return None
    phi = math.radians(rot_deg % 360.0)
    cphi, sphi = math.cos(phi), math.sin(phi)
    dx, dy = (x1 - x2) / 2.0, (y1 - y2) / 2.0
    x1p = cphi * dx + sphi * dy
    y1p = -sphi * dx + cphi * dy
    lam = (x1p * x1p) / (rx * rx) + (y1p * y1p) / (ry * ry)
    if lam > 1:
        s = math.sqrt(lam)
        rx, ry = rx * s, ry * s
    num = rx * rx * ry * ry - rx * rx * y1p * y1p - ry * ry * x1p * x1p
    den = rx * rx * y1p * y1p + ry * ry * x1p * x1p
    co = math.sqrt(max(0.0, num / den)) if den else 0.0
    if bool(large) == bool(sweep):
        co = -co
    cxp = co * rx * y1p / ry
    cyp = -co * ry * x1p / rx
    cx = cphi * cxp - sphi * cyp + (x1 + x2) / 2.0
    cy = sphi * cxp + cphi * cyp + (y1 + y2) / 2.0

    def ang(ux, uy, vx, vy):
        a = math.atan2(ux * vy - uy * vx, ux * vx + uy * vy)
        return a

    ux, uy = (x1p - cxp) / rx, (y1p - cyp) / ry
    vx, vy = (-x1p - cxp) / rx, (-y1p - cyp) / ry
    th1 = math.atan2(uy, ux)
    dth = ang(ux, uy, vx, vy)
    if not sweep and dth > 0:
        dth -= 2 * math.pi
    elif sweep and dth < 0:
        dth += 2 * math.pi
    return (cx, cy, rx, ry, phi, th1, dth)


def arc_point(cp, t):
    cx, cy, rx, ry, phi, th1, dth = cp
    th = th1 + t * dth
    c, s = math.cos(th), math.sin(th)
    cphi, sphi = math.cos(phi), math.sin(phi)
    return (cx + cphi * rx * c - sphi * ry * s, cy + sphi * rx * c + cphi * ry * s)


# ---------------------------------------------------------------------------
# (c) sampling


def seg_points(seg, n):
    """n+1 points along the segment, t = 0..1 inclusive (true curve, not chords)."""
    k = seg[0]
    if k == "L":
        (x0, y0), (x1, y1) = seg[1], seg[2]
        if n > 2:
            n = 2
        return [(x0 + (x1 - x0) * i / n, y0 + (y1 - y0) * i / n) for i in range(n + 1)]
    if k == "Q":
        p0, c, p1 = seg[1], seg[2], seg[3]
        pts = []
        for i in range(n + 1):
            t = i / n
            u = 1 - t
            pts.append(
                (u * u * p0[0] + 2 * u * t * c[0] + t * t * p1[0], u * u * p0[1] + 2 * u * t * c[1] + t * t * p1[1])
            )
        return pts
    if k == "C":
        p0, c1, c2, p1 = seg[1:5]
        pts = []
        for i in range(n + 1):
            t = i / n
            u = 1 - t
            a, b, c, d = u * u * u, 3 * u * u * t, 3 * u * t * t, t * t * t
            pts.append(
                (a * p0[0] + b * c1[0] + c * c2[0] + d * p1[0], a * p0[1] + b * c1[1] + c * c2[1] + d * p1[1])
            )
        return pts
    if k == "A":
        p0, rx, ry, rot, large, sweep, p1 = seg[1:8]
        cp = arc_center(p0, rx, ry, rot, large, sweep, p1)
        if cp is None:
            if p0 == p1:
                return [p0]
            return [p0, ((p0[0] + p1[0]) / 2, (p0[1] + p1[1]) / 2), p1]
        # sample proportionally to the swept angle
        m = max(2, int(math.ceil(n * abs(cp[6]) / (math.pi / 2))))
        pts = [arc_point(cp, i / m) for i in range(m + 1)]
        pts[0] = p0
        pts[-1] = p1
        return pts
    raise ValueError(k)


def seg_end(seg):
    return seg[-1]


def sub_polyline(sub, n=16):
    pts = [sub["start"]]
    for seg in sub["segs"]:
        sp = seg_points(seg, n)
        pts.extend(sp[1:] if len(sp) > 1 else [])
    if sub["closed"] and pts[-1] != sub["start"]:
        pts.append(sub["start"])
    return pts


def sub_end(sub):
    if sub["closed"]:
        return sub["start"]
    if sub["segs"]:
        return sub["segs"][-1][-1]
    return sub["start"]


def signed_area(pts):
    a = 0.0
    for i in range(len(pts)):
        x0, y0 = pts[i]
        x1, y1 = pts[(i + 1) % len(pts)]
        a += x0 * y1 - x1 * y0
    return a / 2.0


def _pt_seg_d2(px, py, ax, ay, bx, by):
    dx, dy = bx - ax, by - ay
    L = dx * dx + dy * dy
    if L == 0:
        t = 0.0
    else:
        t = ((px - ax) * dx + (py - ay) * dy) / L
        t = 0.0 if t < 0 else (1.0 if t > 1 else t)
    qx, qy = ax + t * dx, ay + t * dy
    return (px - qx) ** 2 + (py - qy) ** 2


def directed_dist(pts, poly):
    """max over pts of the distance to polyline poly (numpy when large)."""
    if not pts:
        return 0.0
    if len(poly) == 1:
        ax, ay = poly[0]
        return math.sqrt(max((px - ax) ** 2 + (py - ay) ** 2 for px, py in pts))
    if len(pts) * len(poly) < 400:
        worst = 0.0
        for px, py in pts:
            best = float("inf")
            for i in range(len(poly) - 1):
                ax, ay = poly[i]
                bx, by = poly[i + 1]
                d = _pt_seg_d2(px, py, ax, ay, bx, by)
                if d < best:
                    best = d
                    if best == 0:
                        break
            if best > worst:
                worst = best
        return math.sqrt(worst)
    import numpy as np

    P = np.asarray(pts, dtype=float)
    Q = np.asarray(poly, dtype=float)
    A, B = Q[:-1], Q[1:]
    D = B - A
    L = (D * D).sum(1)
    L[L == 0] = 1.0
    W = P[:, None, :] - A[None, :, :]
    t = ((W * D[None, :, :]).sum(2) / L[None, :]).clip(0.0, 1.0)
    C = A[None, :, :] + t[:, :, None] * D[None, :, :]
    d2 = ((P[:, None, :] - C) ** 2).sum(2).min(1)
    return float(math.sqrt(d2.max()))


def two_sided(pa, pb):
    return max(directed_dist(pa, pb), directed_dist(pb, pa))


def scale_of(subs):
    m = 1.0
    for s in subs:
        for x, y in [s["start"]] + [p for seg in s["segs"] for p in seg[1:] if isinstance(p, tuple)]:
            m = max(m, abs(x), abs(y))
    return m


def drop_move_only(subs):
    return [s for s in subs if s["segs"] or s["closed"]]


def segs_equal(sa, sb, tol):
    if len(sa) != len(sb):
        return False
    for a, b in zip(sa, sb):
        if a[0] != b[0] or len(a) != len(b):
            return False
        for u, v in zip(a[1:], b[1:]):
            if isinstance(u, tuple):
                if abs(u[0] - v[0]) > tol or abs(u[1] - v[1]) > tol:
                    return False
            else:
                if abs(u - v) > tol:
                    return False
    return True


def compare_curves(A, B, tol_exact, tol_geom=None, n=24):
    """Compare two interpreted paths (lists of subpaths).  Returns None if
    they describe the same curve, else a string explaining the difference.
    Move-only subpaths are ignored on both sides (they draw nothing)."""
    A, B = drop_move_only(A), drop_move_only(B)
    if len(A) != len(B):
        return f"subpath count {len(A)} != {len(B)}"
    tg = tol_geom if tol_geom is not None else tol_exact
    for i, (a, b) in enumerate(zip(A, B)):
        if a["closed"] != b["closed"]:
            return f"subpath {i}: closed {a['closed']} != {b['closed']}"
        for name, pa, pb in (("start", a["start"], b["start"]), ("end", sub_end(a), sub_end(b))):
            if max(abs(pa[0] - pb[0]), abs(pa[1] - pb[1])) > max(tol_exact, tg):
                return f"subpath {i}: {name} point {pa} != {pb}"
        if segs_equal(a["segs"], b["segs"], tol_exact):
            continue
        pa, pb = sub_polyline(a, n), sub_polyline(b, n)
        # flattening error of the *denser* polyline is second order; sample
        # points come from the true curves, distances are to chords of a fine polyline
        fa, fb = sub_polyline(a, n * 6), sub_polyline(b, n * 6)
        d = max(directed_dist(pa, fb), directed_dist(pb, fa))
        if d > tg:
            return f"subpath {i}: curves differ by {d:.3g} > {tg:.3g}"
        sa_, sb_ = signed_area(fa), signed_area(fb)
        ext = max(1.0, max(max(abs(x), abs(y)) for x, y in fa))
        if abs(sa_ - sb_) > tg * 8 * ext * max(4, len(a["segs"])):
            return f"subpath {i}: signed area {sa_:.6g} != {sb_:.6g} (direction / sweep)"
    return None


# ---------------------------------------------------------------------------
# exact extrema


def _quad_extrema_1d(p0, c, p1):
    den = p0 - 2 * c + p1
    ts = []
    if den != 0:
        t = (p0 - c) / den
        if 0 < t < 1:
            ts.append(t)
    return ts


def _cubic_extrema_1d(p0, c1, c2, p1):
    a = -p0 + 3 * c1 - 3 * c2 + p1
    b = 2 * (p0 - 2 * c1 + c2)
    c = c1 - p0
    ts = []
    if abs(a) < 1e-14:
        if b != 0:
            ts.append(-c / b)
    else:
        disc = b * b - 4 * a * c
        if disc >= 0:
            r = math.sqrt(disc)
            ts += [(-b + r) / (2 * a), (-b - r) / (2 * a)]
    return [t for t in ts if 0 < t < 1]


def tight_box(subs, include_moves=True):
    xs, ys = [], []
    for s in subs:
        if include_moves or s["segs"] or s["closed"]:
            xs.append(s["start"][0])
            ys.append(s["start"][1])
        for seg in s["segs"]:
            k = seg[0]
            if k == "L":
                for p in seg[1:]:
                    xs.append(p[0])
                    ys.append(p[1])
            elif k == "Q":
                p0, c, p1 = seg[1:4]
                pts = [p0, p1]
                for d in (0, 1):
                    for t in _quad_extrema_1d(p0[d], c[d], p1[d]):
                        u = 1 - t
                        pts.append(
                            (u * u * p0[0] + 2 * u * t * c[0] + t * t * p1[0], u * u * p0[1] + 2 * u * t * c[1] + t * t * p1[1])
                        )
                for p in pts:
                    xs.append(p[0])
                    ys.append(p[1])
            elif k == "C":
                p0, c1, c2, p1 = seg[1:5]
                pts = [p0, p1]
                for d in (0, 1):
                    for t in _cubic_extrema_1d(p0[d], c1[d], c2[d], p1[d]):
                        u = 1 - t
                        a, b, c, dd = u * u * u, 3 * u * u * t, 3 * u * t * t, t * t * t
                        pts.append(
                            (a * p0[0] + b * c1[0] + c * c2[0] + dd * p1[0], a * p0[1] + b * c1[1] + c * c2[1] + dd * p1[1])
                        )
                for p in pts:
                    xs.append(p[0])
                    ys.append(p[1])
            elif k == "A":
                p0, rx, ry, rot, large, sweep, p1 = seg[1:8]
                cp = arc_center(p0, rx, ry, rot, large, sweep, p1)
                pts = [p0, p1]
                if cp is not None:
                    cx, cy, rx_, ry_, phi, th1, dth = cp
                    # extrema of x(th), y(th)
                    cands = []
                    tx = math.atan2(-ry_ * math.sin(phi), rx_ * math.cos(phi))
                    ty = math.atan2(ry_ * math.cos(phi), rx_ * math.sin(phi))
                    for base in (tx, ty):
                        for k2 in range(-4, 5):
                            cands.append(base + k2 * math.pi)
                    lo, hi = (th1, th1 + dth) if dth >= 0 else (th1 + dth, th1)
                    for th in cands:
                        if lo < th < hi:
                            pts.append(arc_point(cp, (th - th1) / dth))
                for p in pts:
                    xs.append(p[0])
                    ys.append(p[1])
    if not xs:
        return None
    return (min(xs), min(ys), max(xs), max(ys))
