"""Colour keywords (CSS basic + a few more used by the generators) and hex forms."""

KEYWORDS = {
    "black": (0, 0, 0), "silver": (192, 192, 192), "gray": (128, 128, 128), "grey": (128, 128, 128), "white": (255, 255, 255),
    "maroon": (128, 0, 0), "red": (255, 0, 0), "purple": (128, 0, 128), "fuchsia": (255, 0, 255), "green": (0, 128, 0),
    "lime": (0, 255, 0), "olive": (128, 128, 0), "yellow": (255, 255, 0), "navy": (0, 0, 128), "blue": (0, 0, 255),
    "teal": (0, 128, 128), "aqua": (0, 255, 255), "orange": (255, 165, 0), "brown": (165, 42, 42), "crimson": (220, 20, 60),
    "pink": (255, 192, 203), "gold": (255, 215, 0), "cyan": (0, 255, 255), "magenta": (255, 0, 255),
}


def parse_colour(s):
    """-> (r, g, b) in 0..255 or None if not a plain colour"""
    s = s.strip().lower()
    if s in KEYWORDS:
        return KEYWORDS[s]
    if s.startswith("#"):
        h = s[1:]
        try:
            if len(h) == 3:
                return tuple(int(c * 2, 16) for c in h)
            if len(h) == 6:
                return tuple(int(h[i : i + 2], 16) for i in (0, 2, 4))
        except ValueError:
            return None
    return None
