"""R3 - point-evaluating reference renderer for the SVG subset the properties
talk about (rule set: DESIGN.md Appendix A).  Parses with the stdlib expat
ElementTree; shares no code with picosvg and does not call Skia.

  scene = build(doc_text)                  -> Scene (tree of Group / Leaf)
  cov   = scene.coverage(points)           -> (n_leaves, N) int8: 1 inside, 0 outside, -1 unknown
  stack = scene.canonical_stack(mask)      -> canonical paint stack for one coverage column
  rgba  = scene.composite(points, cov)     -> (N,4) premultiplied
"""
import math
import re
import xml.etree.ElementTree as ET

import numpy as np

from mc.ref import affine as A
from mc.ref import colours, gradient, pathdata as R1, stroke3

SVG = "http://www.w3.org/2000/svg"
XLINK = "http://www.w3.org/1999/xlink"
T = lambda n: "{%s}%s" % (SVG, n)

INHERITED = [
    "fill", "fill-rule", "fill-opacity", "stroke", "stroke-width", "stroke-linecap", "stroke-linejoin",
    "stroke-miterlimit", "stroke-dasharray", "stroke-dashoffset", "stroke-opacity", "clip-rule",
]
DEFAULTS = {
    "fill": "black", "fill-rule": "nonzero", "fill-opacity": "1", "stroke": "none", "stroke-width": "1",
    "stroke-linecap": "butt", "stroke-linejoin": "miter", "stroke-miterlimit": "4", "stroke-dasharray": "none",
    "stroke-dashoffset": "0", "stroke-opacity": "1", "clip-rule": "nonzero",
}
SHAPES = {"rect", "circle", "ellipse", "line", "polygon", "polyline", "path"}


class Unsupported(Exception):
    """the document uses something outside the rule set (a generator bug, never a verdict)"""


def local(tag):
    if isinstance(tag, str) and tag.startswith("{"):
        ns, _, l = tag[1:].partition("}")
        return ns, l
    return None, tag


def style_decls(el):
    """CSS declaration list of a style attribute (css-style-attr): comments stand for whitespace, empty declarations are
    skipped, a later declaration of the same property wins, '!important' is a priority and not part of the value."""
    out = {}
    text = re.sub(r"/\*.*?\*/", " ", el.get("style") or "", flags=re.S)
    for d in text.split(";"):
        if ":" not in d:
            continue
        k, _, v = d.partition(":")
        v = re.sub(r"\s*!\s*important\s*$", "", v.strip(), flags=re.I)
        out[k.strip()] = v.strip()
    return out


def specified(el, name):
    st = style_decls(el)
    if name in st:
        return st[name]
    return el.get(name)


def cascade(el, inh):
    """-> new inherited dict for el"""
    out = dict(inh)
    for p in INHERITED:
        v = specified(el, p)
        if v is not None and v.strip() != "" and v.strip() != "inherit":
            out[p] = v.strip()
    return out


def num(s, default=0.0):
    if s is None or s.strip() == "":
        return default
    return float(s)


def opacity_of(el):
    v = specified(el, "opacity")
    if v is None or v.strip() == "":
        return 1.0
    return min(1.0, max(0.0, float(v)))


def transform_of(el, attr="transform"):
    v = el.get(attr)
    if not v or not v.strip():
        return A.I
    return tuple(float(x) for x in A.list_matrix(A.parse_transform_list(v)))


def fmul(m, n):
    return tuple(float(x) for x in A.mul(m, n))


def max_scale(m):
    a, b, c, d = m[0], m[1], m[2], m[3]
    # largest singular value
    s1 = a * a + b * b + c * c + d * d
    s2 = math.sqrt(max(0.0, (a * a + b * b - c * c - d * d) ** 2 + 4 * (a * c + b * d) ** 2))
    return math.sqrt(max(0.0, (s1 + s2) / 2))


# ---------------------------------------------------------------------------
# geometry


def shape_path_string(el):
    """SVG 1.1 chapter 9: the equivalent path of a basic shape, or None if rendering is disabled."""
    _, tag = local(el.tag)
    g = lambda n, d=0.0: num(el.get(n), d)
    f = R1_fmt
    if tag == "path":
        return el.get("d") or ""
    if tag == "rect":
        x, y, w, h = g("x"), g("y"), g("width"), g("height")
        rx = el.get("rx")
        ry = el.get("ry")
        rx = float(rx) if rx not in (None, "") else None
        ry = float(ry) if ry not in (None, "") else None
        if w <= 0 or h <= 0:
            return None
        if rx is None and ry is None:
            rx = ry = 0.0
        elif rx is None:
            rx = ry
        elif ry is None:
            ry = rx
        rx, ry = min(rx, w / 2), min(ry, h / 2)
        if rx <= 0 or ry <= 0:
            return f"M{f(x)},{f(y)} H{f(x + w)} V{f(y + h)} H{f(x)} Z"
        return (
            f"M{f(x + rx)},{f(y)} H{f(x + w - rx)} A{f(rx)} {f(ry)} 0 0 1 {f(x + w)},{f(y + ry)} V{f(y + h - ry)} "
            f"A{f(rx)} {f(ry)} 0 0 1 {f(x + w - rx)},{f(y + h)} H{f(x + rx)} A{f(rx)} {f(ry)} 0 0 1 {f(x)},{f(y + h - ry)} "
            f"V{f(y + ry)} A{f(rx)} {f(ry)} 0 0 1 {f(x + rx)},{f(y)} Z"
        )
    if tag in ("circle", "ellipse"):
        cx, cy = g("cx"), g("cy")
        if tag == "circle":
            rx = ry = g("r")
        else:
            rx, ry = g("rx"), g("ry")
        if rx <= 0 or ry <= 0:
            return None
        return f"M{f(cx + rx)},{f(cy)} A{f(rx)} {f(ry)} 0 1 1 {f(cx - rx)},{f(cy)} A{f(rx)} {f(ry)} 0 1 1 {f(cx + rx)},{f(cy)} Z"
    if tag == "line":
        return f"M{f(g('x1'))},{f(g('y1'))} L{f(g('x2'))},{f(g('y2'))}"
    if tag in ("polygon", "polyline"):
        nums = [float(t) for t in re.findall(r"[-+]?(?:\d+\.?\d*|\.\d+)(?:[eE][-+]?\d+)?", el.get("points") or "")]
        if len(nums) % 2:
            nums = nums[:-1]
        if len(nums) < 2:
            return None
        d = "M" + " ".join(f"{f(nums[i])},{f(nums[i + 1])}" for i in range(0, len(nums), 2))
        return d + (" Z" if tag == "polygon" else "")
    raise Unsupported(tag)


def R1_fmt(x):
    return repr(float(x))


def flatten_subpaths(subs, tol):
    """-> list of {"pts": [(x,y)], "corner": [bool], "closed": bool} in local coordinates"""
    out = []
    for s in subs:
        pts = [s["start"]]
        corner = [True]
        for seg in s["segs"]:
            k = seg[0]
            if k == "L":
                n = 1
            elif k == "Q":
                p0, c, p1 = seg[1:4]
                dd = math.hypot(p0[0] - 2 * c[0] + p1[0], p0[1] - 2 * c[1] + p1[1])
                n = max(2, min(200, int(math.ceil(math.sqrt(dd / (4 * tol))))))
            elif k == "C":
                p0, c1, c2, p1 = seg[1:5]
                dd = max(math.hypot(p0[0] - 2 * c1[0] + c2[0], p0[1] - 2 * c1[1] + c2[1]), math.hypot(c1[0] - 2 * c2[0] + p1[0], c1[1] - 2 * c2[1] + p1[1]))
                n = max(2, min(200, int(math.ceil(math.sqrt(3 * dd / (4 * tol))))))
            else:  # arc
                cp = R1.arc_center(*seg[1:8])
                if cp is None:
                    n = 1
                else:
                    r = max(cp[2], cp[3])
                    step = 2 * math.acos(max(-1.0, min(1.0, 1 - tol / r))) if r > tol else math.pi / 2
                    step = max(step, 1e-3)
                    # seg_points scales n per quarter turn
                    n = max(2, min(400, int(math.ceil((math.pi / 2) / step))))
            sp = R1.seg_points(seg, n) if k != "L" else [seg[1], seg[2]]
            for p in sp[1:]:
                pts.append(p)
                corner.append(False)
            corner[-1] = True
        closed = s["closed"]
        if closed and len(pts) > 1 and pts[-1] == pts[0]:
            pts.pop()
            corner.pop()
        out.append({"pts": pts, "corner": corner, "closed": closed})
    return out


def transform_pts(m, pts):
    P = np.asarray(pts, dtype=float).reshape(-1, 2)
    return np.stack([m[0] * P[:, 0] + m[2] * P[:, 1] + m[4], m[1] * P[:, 0] + m[3] * P[:, 1] + m[5]], axis=1)


def winding(points, polys):
    """winding number of the union of closed polylines at points. polys: list of (M,2) arrays (implicitly closed)."""
    w = np.zeros(len(points), dtype=np.int32)
    px, py = points[:, 0][:, None], points[:, 1][:, None]
    for P in polys:
        if len(P) < 2:
            continue
        Q = np.roll(P, -1, axis=0)
        x0, y0, x1, y1 = P[:, 0][None, :], P[:, 1][None, :], Q[:, 0][None, :], Q[:, 1][None, :]
        isleft = (x1 - x0) * (py - y0) - (px - x0) * (y1 - y0)
        up = (y0 <= py) & (y1 > py) & (isleft > 0)
        dn = (y0 > py) & (y1 <= py) & (isleft < 0)
        w += up.sum(1) - dn.sum(1)
    return w


def edge_distance(points, polys, closed_flags=None):
    """min distance from points to the edges of polylines (closing edge included when closed)"""
    d = np.full(len(points), np.inf)
    for k, P in enumerate(polys):
        if len(P) == 0:
            continue
        if len(P) == 1:
            d = np.minimum(d, np.sqrt(((points - P[0]) ** 2).sum(1)))
            continue
        closed = True if closed_flags is None else closed_flags[k]
        Aa = P if closed else P[:-1]
        Bb = np.roll(P, -1, axis=0) if closed else P[1:]
        D = Bb - Aa
        L = (D * D).sum(1)
        Ls = np.where(L == 0, 1.0, L)
        W = points[:, None, :] - Aa[None, :, :]
        t = ((W * D[None, :, :]).sum(2) / Ls[None, :]).clip(0, 1)
        C = Aa[None, :, :] + t[:, :, None] * D[None, :, :]
        d = np.minimum(d, np.sqrt(((points[:, None, :] - C) ** 2).sum(2)).min(1))
    return d


def tri(inside, dist, band):
    """three-valued: 1 inside, 0 outside, -1 within the band of an edge"""
    r = np.where(inside, 1, 0).astype(np.int8)
    r[dist < band] = -1
    return r


def tri_and(a, b):
    # 0 dominates, then -1
    r = np.where((a == 0) | (b == 0), 0, np.where((a == -1) | (b == -1), -1, 1)).astype(np.int8)
    return r


def tri_or(a, b):
    r = np.where((a == 1) | (b == 1), 1, np.where((a == -1) | (b == -1), -1, 0)).astype(np.int8)
    return r


# ---------------------------------------------------------------------------
# scene nodes


class Leaf:
    def __init__(self, kind, paint, alpha, label):
        self.kind = kind  # "fill" | "stroke"
        self.paint = paint  # ("solid", (r,g,b)) | ("grad", gdict, ctm, bbox)
        self.alpha = alpha
        self.label = label
        self.polys = []  # fill: transformed closed polylines
        self.rule = "nonzero"
        self.stroke = None  # (local subpaths, style, inverse ctm)
        self.index = None

    def coverage(self, pts, band):
        if self.kind == "fill":
            if not self.polys:
                return np.zeros(len(pts), dtype=np.int8)
            w = winding(pts, self.polys)
            inside = (w != 0) if self.rule == "nonzero" else (w % 2 != 0)
            return tri(inside, edge_distance(pts, self.polys), band)
        subs, style, inv = self.stroke
        if inv is None:
            return np.zeros(len(pts), dtype=np.int8)
        q = transform_pts(inv, pts)
        return stroke3.classify(subs, style, q).astype(np.int8)


class ClipRegion:
    """union of (polys, rule) children, optionally intersected with another region"""

    def __init__(self):
        self.parts = []  # (polys, rule)
        self.also = None

    def coverage(self, pts, band):
        r = np.zeros(len(pts), dtype=np.int8)
        for polys, rule in self.parts:
            if not polys:
                continue
            w = winding(pts, polys)
            inside = (w != 0) if rule == "nonzero" else (w % 2 != 0)
            r = tri_or(r, tri(inside, edge_distance(pts, polys), band))
        if self.also is not None:
            r = tri_and(r, self.also.coverage(pts, band))
        return r

    def all_polys(self):
        out = [P for polys, _ in self.parts for P in polys]
        if self.also is not None:
            out += self.also.all_polys()
        return out


class Group:
    def __init__(self, opacity=1.0, label="g"):
        self.opacity = opacity
        self.children = []
        self.clips = []
        self.label = label


class Scene:
    def __init__(self, root, leaves, viewbox, band):
        self.root = root
        self.leaves = leaves
        self.viewbox = viewbox
        self.band = band

    # -- coverage ------------------------------------------------------------
    def coverage(self, pts):
        pts = np.asarray(pts, dtype=float)
        cov = np.zeros((len(self.leaves), len(pts)), dtype=np.int8)

        def walk(node, clipcov):
            if isinstance(node, Leaf):
                c = node.coverage(pts, self.band)
                cov[node.index] = tri_and(c, clipcov) if clipcov is not None else c
                return
            cc = clipcov
            for cl in node.clips:
                c = cl.coverage(pts, self.band)
                cc = c if cc is None else tri_and(cc, c)
            for ch in node.children:
                walk(ch, cc)

        walk(self.root, None)
        return cov

    # -- canonical stack for one coverage column -----------------------------
    def canonical_stack(self, column):
        def canon(node):
            if isinstance(node, Leaf):
                if column[node.index] != 1 or node.alpha <= 0:
                    return []
                key = node.paint[1] if node.paint[0] == "solid" else "gradient"
                if node.paint[0] == "none":
                    return []
                return [("L", key, node.alpha)]
            items = []
            for ch in node.children:
                items += canon(ch)
            if not items or node.opacity <= 0:
                return []
            if node.opacity >= 1:
                return items
            if len(items) == 1:
                it = items[0]
                if it[0] == "L":
                    return [("L", it[1], it[2] * node.opacity)]
                return [("G", it[1] * node.opacity, it[2])]
            return [("G", node.opacity, tuple(items))]

        return tuple(canon(self.root))

    # -- compositing -----------------------------------------------------------
    def composite(self, pts, cov):
        pts = np.asarray(pts, dtype=float)
        n = len(pts)

        def comp(node):
            if isinstance(node, Leaf):
                c = (cov[node.index] == 1).astype(float)
                if node.paint[0] == "solid":
                    rgb = np.tile(np.asarray(node.paint[1], dtype=float) / 255.0, (n, 1))
                    a = c * node.alpha
                elif node.paint[0] == "grad":
                    _, g, ctm, bbox = node.paint
                    t, rgb255, ga = gradient.evaluate(g, pts, ctm, bbox)
                    rgb = rgb255 / 255.0
                    a = c * node.alpha * ga
                    a = np.where(np.isnan(t), 0.0, a)
                else:
                    return np.zeros((n, 4))
                return np.concatenate([rgb * a[:, None], a[:, None]], axis=1)
            acc = np.zeros((n, 4))
            for ch in node.children:
                src = comp(ch)
                acc = src + acc * (1 - src[:, 3:4])
            return acc * node.opacity

        return comp(self.root)

    def all_edge_polys(self):
        out = []

        def walk(node):
            if isinstance(node, Leaf):
                out.extend(node.polys)
                if node.stroke is not None and node.stroke[2] is not None:
                    pass
                return
            for cl in node.clips:
                out.extend(cl.all_polys())
            for ch in node.children:
                walk(ch)

        walk(self.root)
        return out


# ---------------------------------------------------------------------------
# building


class Builder:
    def __init__(self, text, band_frac=0.004, flatten_frac=20.0):
        self.root = ET.fromstring(text)
        if local(self.root.tag) != (SVG, "svg"):
            raise Unsupported("root is not svg")
        self.ids = {}
        for el in self.root.iter():
            i = el.get("id")
            if i is not None and i not in self.ids:
                self.ids[i] = el
        vb = self.root.get("viewBox")
        if vb:
            v = [float(x) for x in re.split(r"[,\s]+", vb.strip())]
            self.viewbox = tuple(v)
        else:
            self.viewbox = (0.0, 0.0, num(self.root.get("width"), 100.0), num(self.root.get("height"), 100.0))
        self.extent = max(self.viewbox[2], self.viewbox[3])
        self.band = band_frac * self.extent
        self.tol = self.band / flatten_frac
        self.leaves = []
        self.use_depth = 0

    def scene(self):
        inh = cascade(self.root, dict(DEFAULTS))
        g = Group(opacity_of(self.root), "svg")
        if specified(self.root, "display") == "none":
            return Scene(g, [], self.viewbox, self.band)
        for ch in self.root:
            n = self.build(ch, A.I, inh, (self.viewbox[2], self.viewbox[3]))
            if n is not None:
                g.children.append(n)
        for k, lf in enumerate(self.leaves):
            lf.index = k
        return Scene(g, self.leaves, self.viewbox, self.band)

    def href(self, el):
        return el.get("{%s}href" % XLINK) or el.get("href")

    def url_target(self, v):
        m = re.match(r"""^url\(\s*(["']?)#([^)\s"']+)\1\s*\)$""", (v or "").strip())
        if not m:
            return None
        return self.ids.get(m.group(2))

    def clip_region(self, cp_el, M, inh_for_clip):
        """A.4: region(id, M)"""
        region = ClipRegion()
        Mc = fmul(M, transform_of(cp_el))
        cinh = cascade(cp_el, inh_for_clip)
        for c in cp_el:
            self._clip_child(c, Mc, cinh, region)
        own = specified(cp_el, "clip-path")
        if own and own != "none":
            t = self.url_target(own)
            if t is not None and local(t.tag)[1] == "clipPath":
                region.also = self.clip_region(t, Mc, dict(DEFAULTS))
        return region

    def _clip_child(self, c, Mc, cinh, region):
        ns, tag = local(c.tag)
        if ns != SVG:
            return
        if specified(c, "display") == "none":
            return
        ci = cascade(c, cinh)
        if tag == "use":
            tgt = self.ids.get((self.href(c) or "#")[1:])
            if tgt is None:
                return
            m = fmul(fmul(Mc, transform_of(c)), (1, 0, 0, 1, num(c.get("x")), num(c.get("y"))))
            self._clip_child(tgt, m, ci, region)
            return
        if tag not in SHAPES:
            return
        d = shape_path_string(c)
        if d is None:
            return
        m = fmul(Mc, transform_of(c))
        subs = R1.interpret_string(d)
        polys = self._polys(subs, m)
        region.parts.append((polys, ci["clip-rule"]))

    def _polys(self, subs, m):
        sc = max(max_scale(m), 1e-9)
        fl = flatten_subpaths(R1.drop_move_only(subs), self.tol / sc)
        return [transform_pts(m, f["pts"]) for f in fl if len(f["pts"]) >= 2]

    def clips_for(self, el, M):
        cp = specified(el, "clip-path")
        if not cp or cp == "none":
            return []
        t = self.url_target(cp)
        if t is None or local(t.tag)[1] != "clipPath":
            return []
        # clip-rule inherits to clipPath children from the clipPath element's own ancestors;
        # generated documents put clipPath under defs/root without clip-rule there
        return [self.clip_region(t, M, dict(DEFAULTS))]

    def build(self, el, ctm, inh, parent_size):
        ns, tag = local(el.tag)
        if ns != SVG or not isinstance(el.tag, str):
            return None
        if tag in ("defs", "clipPath", "linearGradient", "radialGradient", "symbol", "title", "desc", "metadata", "style", "stop", "mask", "filter", "pattern"):
            return None
        if specified(el, "display") == "none":
            return None
        ci = cascade(el, inh)
        if tag == "g":
            m = fmul(ctm, transform_of(el))
            g = Group(opacity_of(el), "g")
            g.clips = self.clips_for(el, m)
            for ch in el:
                n = self.build(ch, m, ci, parent_size)
                if n is not None:
                    g.children.append(n)
            return g
        if tag == "svg":
            x, y = num(el.get("x")), num(el.get("y"))
            w, h = num(el.get("width"), parent_size[0]), num(el.get("height"), parent_size[1])
            m = ctm
            if el.get("transform"):
                m = fmul(m, transform_of(el))
            vb = el.get("viewBox")
            size = (w, h)
            if vb:
                v = [float(t) for t in re.split(r"[,\s]+", vb.strip())]
                par = (el.get("preserveAspectRatio") or "xMidYMid meet").split()
                align = par[0]
                mos = par[1] if len(par) > 1 else "meet"
                if v[2] <= 0 or v[3] <= 0:
                    return None
                V = tuple(float(t) for t in A.viewbox_transform(tuple(v), (x, y, w, h), align, mos))
                size = (v[2], v[3])
            else:
                V = (1.0, 0.0, 0.0, 1.0, x, y)
            g = Group(opacity_of(el), "svg")
            overflow = specified(el, "overflow") or "hidden"
            if overflow in ("hidden", "scroll"):
                r = ClipRegion()
                rect = np.array([[x, y], [x + w, y], [x + w, y + h], [x, y + h]], dtype=float)
                r.parts.append(([transform_pts(m, rect)], "nonzero"))
                g.clips = [r]
            g.clips += self.clips_for(el, m)
            mm = fmul(m, V)
            for ch in el:
                n = self.build(ch, mm, ci, size)
                if n is not None:
                    g.children.append(n)
            return g
        if tag == "use":
            tgt = self.ids.get((self.href(el) or "#")[1:])
            if tgt is None:
                raise Unsupported("dangling use")
            self.use_depth += 1
            if self.use_depth > 20:
                raise Unsupported("use cycle")
            m = fmul(fmul(ctm, transform_of(el)), (1, 0, 0, 1, num(el.get("x")), num(el.get("y"))))
            g = Group(opacity_of(el), "use")
            g.clips = self.clips_for(el, m)  # SVG 1.1 5.6: attributes move to the generated g whose transform ends in translate(x,y)
            if local(tgt.tag)[1] == "symbol" or local(tgt.tag)[1] == "svg":
                raise Unsupported("use of symbol/svg")
            n = self.build(tgt, m, ci, parent_size)
            if n is not None:
                g.children.append(n)
            self.use_depth -= 1
            return g
        if tag in SHAPES:
            m = fmul(ctm, transform_of(el))
            return self.shape(el, m, ci)
        if tag in ("text", "image", "a", "foreignObject", "switch"):
            raise Unsupported(tag)
        return None

    def paint(self, value, m, bbox_fn):
        v = value.strip()
        if v == "none":
            return ("none",)
        if v.startswith("url("):
            # <paint> = url(...) [fallback]: the fallback counts only when the reference does not resolve
            k = v.find(")")
            head, fallback = v[: k + 1], v[k + 1 :].strip()
            t = self.url_target(head)
            if t is None or local(t.tag)[1] not in ("linearGradient", "radialGradient"):
                if fallback:
                    return self.paint(fallback, m, bbox_fn)
                raise Unsupported("paint server " + v)
            g = self.resolve_gradient(t)
            return ("grad", g, m, bbox_fn())
        c = colours.parse_colour(v)
        if c is None:
            raise Unsupported("colour " + v)
        return ("solid", c)

    def shape(self, el, m, ci):
        d = shape_path_string(el)
        g = Group(opacity_of(el), "shape")
        g.clips = self.clips_for(el, m)
        if d is None or not d.strip():
            return g
        subs = R1.interpret_string(d)
        sc = max(max_scale(m), 1e-9)
        bbox_fn = lambda: R1.tight_box(R1.drop_move_only(subs)) or (0, 0, 0, 0)
        fill = self.paint(ci["fill"], m, bbox_fn)
        fa = min(1.0, max(0.0, float(ci["fill-opacity"])))
        if fill[0] != "none":
            lf = Leaf("fill", fill, fa, local(el.tag)[1])
            lf.rule = ci["fill-rule"]
            lf.polys = self._polys(subs, m)
            self.leaves.append(lf)
            g.children.append(lf)
        stroke = self.paint(ci["stroke"], m, bbox_fn)
        sw = float(ci["stroke-width"])
        if stroke[0] != "none" and sw > 0:
            sa = min(1.0, max(0.0, float(ci["stroke-opacity"])))
            lf = Leaf("stroke", stroke, sa, local(el.tag)[1] + ":stroke")
            da = ci["stroke-dasharray"]
            dash = []
            if da and da != "none":
                dash = [float(t) for t in re.split(r"[,\s]+", da.strip()) if t]
                if len(dash) % 2:
                    dash = dash * 2
                if any(x < 0 for x in dash) or sum(dash) == 0:
                    dash = []
            style = {
                "width": sw, "cap": ci["stroke-linecap"], "join": ci["stroke-linejoin"], "miterlimit": float(ci["stroke-miterlimit"]),
                "dash": dash, "offset": float(ci["stroke-dashoffset"]),
            }
            fl = flatten_subpaths([s for s in subs if s["segs"] or s["closed"]], min(self.tol / sc, stroke3.DELTA / 10))
            inv = A.inv(m)
            lf.stroke = (fl, style, tuple(float(x) for x in inv) if inv is not None else None)
            self.leaves.append(lf)
            g.children.append(lf)
        return g

    # -- gradients -----------------------------------------------------------
    def resolve_gradient(self, el, depth=0):
        if depth > 10:
            raise Unsupported("gradient href cycle")
        kind = "linear" if local(el.tag)[1] == "linearGradient" else "radial"
        attrs = dict(el.attrib)
        stops_el = [s for s in el if local(s.tag) == (SVG, "stop")]
        h = self.href(el)
        if h:
            t = self.ids.get(h[1:].strip())
            if t is not None and local(t.tag)[1] in ("linearGradient", "radialGradient"):
                tg = self.resolve_gradient_attrs(t, depth + 1)
                for k, v in tg["attrs"].items():
                    if k not in attrs:
                        attrs[k] = v
                if not stops_el:
                    stops_el = tg["stops_el"]
        units = attrs.get("gradientUnits", "objectBoundingBox")
        if units == "userSpaceOnUse":
            W, H = self.viewbox[2], self.viewbox[3]
            Dg = math.hypot(W, H) / math.sqrt(2)
        else:
            W = H = Dg = 1.0
        p = gradient.number_or_pct
        g = {"kind": kind, "units": units, "spread": attrs.get("spreadMethod", "pad")}
        gt = attrs.get("gradientTransform")
        g["transform"] = tuple(float(x) for x in A.list_matrix(A.parse_transform_list(gt))) if gt and gt.strip() else A.I
        if kind == "linear":
            g["x1"] = p(attrs.get("x1", "0%"), W)
            g["y1"] = p(attrs.get("y1", "0%"), H)
            g["x2"] = p(attrs.get("x2", "100%"), W)
            g["y2"] = p(attrs.get("y2", "0%"), H)
        else:
            g["cx"] = p(attrs.get("cx", "50%"), W)
            g["cy"] = p(attrs.get("cy", "50%"), H)
            g["r"] = p(attrs.get("r", "50%"), Dg)
            g["fx"] = p(attrs["fx"], W) if "fx" in attrs else g["cx"]
            g["fy"] = p(attrs["fy"], H) if "fy" in attrs else g["cy"]
            g["fr"] = p(attrs.get("fr", "0%"), Dg)
        stops = []
        last = 0.0
        for s in stops_el:
            o = s.get("offset", "0").strip()
            ov = float(o[:-1]) / 100 if o.endswith("%") else float(o)
            ov = min(1.0, max(0.0, ov))
            ov = max(ov, last)
            last = ov
            sc = specified(s, "stop-color") or "black"
            so = specified(s, "stop-opacity")
            col = colours.parse_colour(sc)
            if col is None:
                raise Unsupported("stop colour " + sc)
            stops.append((ov, col, min(1.0, max(0.0, float(so))) if so not in (None, "") else 1.0))
        g["stops"] = stops
        return g

    def resolve_gradient_attrs(self, el, depth):
        if depth > 10:
            raise Unsupported("gradient href cycle")
        attrs = {k: v for k, v in el.attrib.items() if k not in ("id", "{%s}href" % XLINK, "href")}
        stops_el = [s for s in el if local(s.tag) == (SVG, "stop")]
        h = self.href(el)
        if h:
            t = self.ids.get(h[1:].strip())
            if t is not None and local(t.tag)[1] in ("linearGradient", "radialGradient"):
                tg = self.resolve_gradient_attrs(t, depth + 1)
                for k, v in tg["attrs"].items():
                    if k not in attrs:
                        attrs[k] = v
                if not stops_el:
                    stops_el = tg["stops_el"]
        return {"attrs": attrs, "stops_el": stops_el}


def build(text, band_frac=0.004):
    return Builder(text, band_frac).scene()


# ---------------------------------------------------------------------------
# sample points and comparison


def lattice(viewbox, G, phase=0):
    x, y, w, h = viewbox
    mx, my = 0.25 * w, 0.25 * h
    ox = (phase % 4) / 4.0
    oy = ((phase // 4) % 2) / 2.0 + 0.13
    xs = x - mx + (np.arange(G) + 0.31 + ox * 0.5) * (w + 2 * mx) / G
    ys = y - my + (np.arange(G) + 0.57 + oy * 0.4) * (h + 2 * my) / G
    X, Y = np.meshgrid(xs, ys)
    return np.stack([X.ravel(), Y.ravel()], axis=1)


def edge_probes(polys, band, max_points=1500):
    """for every edge: three positions, both normals, offsets 2x and 6x band"""
    pts = []
    for P in polys:
        if len(P) < 2:
            continue
        Q = np.roll(P, -1, axis=0)
        D = Q - P
        L = np.sqrt((D * D).sum(1))
        ok = L > band * 0.5
        if not ok.any():
            continue
        Pn, Dn, Ln = P[ok], D[ok], L[ok]
        N = np.stack([-Dn[:, 1] / Ln, Dn[:, 0] / Ln], axis=1)
        for t in (0.2, 0.5, 0.8):
            base = Pn + Dn * t
            for off in (2.0, 6.0):
                pts.append(base + N * band * off)
                pts.append(base - N * band * off)
    if not pts:
        return np.zeros((0, 2))
    A_ = np.concatenate(pts, axis=0)
    if len(A_) > max_points:
        step = int(math.ceil(len(A_) / max_points))
        A_ = A_[::step]
    return A_


def stacks_equal(a, b, tol):
    if len(a) != len(b):
        return False
    for x, y in zip(a, b):
        if x[0] != y[0]:
            return False
        if x[0] == "L":
            if x[1] != y[1] or abs(x[2] - y[2]) > tol:
                return False
        else:
            if abs(x[1] - y[1]) > tol or not stacks_equal(x[2], y[2], tol):
                return False
    return True


def compare(src_text, out_text, G=24, phase=0, alpha_tol=2e-3, rgba_tol=2.5 / 255, band_frac=0.004, need_points=True):
    """Render source and output at the same finite point set and compare.
    -> dict(ok, why, witness, stats)"""
    S = build(src_text, band_frac)
    O = build(out_text, band_frac)
    O.band = S.band
    pts = lattice(S.viewbox, G, phase)
    pr = edge_probes(S.all_edge_polys() + O.all_edge_polys(), S.band)
    if len(pr):
        pts = np.concatenate([pts, pr], axis=0)
    cs = S.coverage(pts)
    co = O.coverage(pts)
    known = ~((cs == -1).any(0) | (co == -1).any(0))
    stats = {"points": int(len(pts)), "compared": int(known.sum()), "inside": 0, "outside": 0, "src_leaves": len(S.leaves), "out_leaves": len(O.leaves)}
    idx = np.nonzero(known)[0]
    if len(idx) == 0:
        return {"ok": True, "why": None, "stats": stats}
    any_in = (cs[:, idx] == 1).any(0) if len(S.leaves) else np.zeros(len(idx), dtype=bool)
    stats["inside"] = int(any_in.sum())
    stats["outside"] = int((~any_in).sum())
    # group points by joint coverage pattern
    joint = np.concatenate([cs[:, idx], co[:, idx]], axis=0).T if (len(S.leaves) + len(O.leaves)) else np.zeros((len(idx), 0), dtype=np.int8)
    uniq, first = np.unique(joint, axis=0, return_index=True)
    stats["patterns"] = int(len(uniq))
    ns = len(S.leaves)
    for row, fi in zip(uniq, first):
        a = S.canonical_stack(row[:ns])
        b = O.canonical_stack(row[ns:])
        if not stacks_equal(a, b, alpha_tol):
            p = pts[idx[fi]]
            return {"ok": False, "why": f"paint stack differs at point ({p[0]:.3f}, {p[1]:.3f}): source {a!r}, output {b!r}", "witness": [float(p[0]), float(p[1])], "stats": stats}
    ra = S.composite(pts[idx], cs[:, idx])
    rb = O.composite(pts[idx], co[:, idx])
    diff = np.abs(ra - rb).max(1)
    k = int(diff.argmax())
    stats["max_rgba_diff"] = float(diff[k])
    if diff[k] > rgba_tol:
        p = pts[idx[k]]
        return {"ok": False, "why": f"composited colour differs at point ({p[0]:.3f}, {p[1]:.3f}): source {np.round(ra[k], 4).tolist()}, output {np.round(rb[k], 4).tolist()} (premultiplied rgba)", "witness": [float(p[0]), float(p[1])], "stats": stats}
    return {"ok": True, "why": None, "stats": stats}
