"""Reference gradient evaluator (SVG 1.1 13.2, SVG 2 14.2), numpy-vectorised over points.

A gradient is described by a plain dict produced by scene.resolve_gradient():
  kind 'linear'|'radial', units, transform (6-tuple), spread,
  x1,y1,x2,y2 | cx,cy,r,fx,fy,fr  (numbers, already resolved from percentages)
  stops [(offset, (r,g,b), alpha)]  (offsets clamped and made monotone)
"""
import numpy as np

from mc.ref import affine as A


def number_or_pct(s, ref):
    s = s.strip()
    if s.endswith("%"):
        return float(s[:-1]) / 100.0 * ref
    return float(s)


def raw_parameter(g, pts, ctm, bbox):
    """pts: (N,2) user-space points of the referencing element after CTM.
    Returns raw gradient parameter t (N,) before spread; nan where undefined."""
    m = ctm
    if g["units"] == "objectBoundingBox":
        x0, y0, x1, y1 = bbox
        m = A.mul(m, (x1 - x0, 0, 0, y1 - y0, x0, y0))
    m = A.mul(m, g["transform"])
    im = A.inv(tuple(float(v) for v in m))
    if im is None:
        return np.full(len(pts), np.nan)
    im = [float(v) for v in im]
    qx = im[0] * pts[:, 0] + im[2] * pts[:, 1] + im[4]
    qy = im[1] * pts[:, 0] + im[3] * pts[:, 1] + im[5]
    if g["kind"] == "linear":
        dx, dy = g["x2"] - g["x1"], g["y2"] - g["y1"]
        L = dx * dx + dy * dy
        if L == 0:
            return np.full(len(pts), np.inf)  # single colour: last stop
        return ((qx - g["x1"]) * dx + (qy - g["y1"]) * dy) / L
    fx, fy, fr = g["fx"], g["fy"], g["fr"]
    cdx, cdy, dr = g["cx"] - fx, g["cy"] - fy, g["r"] - fr
    pdx, pdy = qx - fx, qy - fy
    a = cdx * cdx + cdy * cdy - dr * dr
    b = pdx * cdx + pdy * cdy + fr * dr
    c = pdx * pdx + pdy * pdy - fr * fr
    if g["r"] <= 0:
        return np.full(len(pts), np.inf)
    if abs(a) < 1e-15:
        with np.errstate(divide="ignore", invalid="ignore"):
            t = c / (2 * b)
        return t
    disc = b * b - a * c
    t = np.full(len(pts), np.nan)
    ok = disc >= 0
    sq = np.sqrt(np.where(ok, disc, 0))
    t1 = (b + sq) / a
    t2 = (b - sq) / a
    hi = np.maximum(t1, t2)
    lo = np.minimum(t1, t2)
    r_hi = fr + hi * dr
    r_lo = fr + lo * dr
    t = np.where(ok & (r_hi >= 0), hi, np.where(ok & (r_lo >= 0), lo, np.nan))
    return t


def spread(t, method):
    t = np.asarray(t, dtype=float)
    fin = np.isfinite(t)
    tt = np.where(fin, t, 0.0)
    if method == "repeat":
        out = tt - np.floor(tt)
    elif method == "reflect":
        m = np.mod(tt, 2.0)
        out = np.where(m > 1, 2 - m, m)
    else:
        out = np.clip(tt, 0.0, 1.0)
    out = np.where(np.isposinf(t), 1.0, out)
    out = np.where(np.isneginf(t), 0.0, out)
    return np.where(np.isnan(t), np.nan, out)


def colour_at(g, t):
    """t after spread, in [0,1] -> (rgb (N,3) 0..255 float, alpha (N,))"""
    stops = g["stops"]
    n = len(t)
    if not stops:
        return np.zeros((n, 3)), np.zeros(n)
    offs = np.array([s[0] for s in stops])
    cols = np.array([s[1] for s in stops], dtype=float)
    alps = np.array([s[2] for s in stops], dtype=float)
    tt = np.where(np.isnan(t), 0.0, t)
    # index of the last stop with offset <= t
    idx = np.searchsorted(offs, tt, side="right") - 1
    lo = np.clip(idx, 0, len(stops) - 1)
    hi = np.clip(idx + 1, 0, len(stops) - 1)
    o0, o1 = offs[lo], offs[hi]
    span = o1 - o0
    with np.errstate(divide="ignore", invalid="ignore"):
        f = np.where(span > 0, (tt - o0) / np.where(span > 0, span, 1), 0.0)
    f = np.where(idx < 0, 0.0, f)
    f = np.clip(f, 0, 1)
    rgb = cols[lo] * (1 - f)[:, None] + cols[hi] * f[:, None]
    alpha = alps[lo] * (1 - f) + alps[hi] * f
    before = idx < 0
    rgb = np.where(before[:, None], cols[0][None, :], rgb)
    alpha = np.where(before, alps[0], alpha)
    return rgb, alpha


def evaluate(g, pts, ctm, bbox):
    t = raw_parameter(g, pts, ctm, bbox)
    ts = spread(t, g["spread"])
    rgb, alpha = colour_at(g, ts)
    return t, rgb, alpha
