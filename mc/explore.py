"""E1 - explicit-state breadth-first explorer over the real implementation.

A state is represented by the history (tuple of action ids) that reaches it from a
root; it is rebuilt by replay on a fresh object inside a worker (live lxml-backed
objects cannot be copied faithfully).  States are deduplicated by a canonical
form computed by the worker.  Every transition is one execution of the
implementation and is judged by the property's per-transition oracle.
"""
import collections
import concurrent.futures as cf
import importlib
import multiprocessing as mp
import time

from mc import core


def _expand(args):
    modname, root_id, hist, actions = args
    mod = importlib.import_module(modname)
    out = []
    import signal

    class _T(BaseException):
        pass

    def _alarm(signum, frame):
        raise _T()

    signal.signal(signal.SIGALRM, _alarm)
    for a in actions:
        try:
            signal.alarm(60)
            try:
                out.append(mod.transition(root_id, hist, a))
            finally:
                signal.alarm(0)
        except _T:
            out.append({"action": a, "succ": None, "viol": [{"sig": {"kind": "operation-hangs", "action": str(a)}, "case": {"root": root_id, "hist": list(hist), "action": a}, "detail": {"why": f"history {list(hist)} + {a}: the operation did not finish within 60 s"}}], "info": {"outcome": "TIMEOUT"}})
        except mod.HarnessNondeterminism as e:
            out.append({"action": a, "succ": None, "viol": [{"sig": {"kind": "harness-nondeterminism"}, "case": {"root": root_id, "hist": list(hist), "action": a}, "detail": {"why": str(e)}}], "info": {"outcome": "HARNESS"}})
    return root_id, hist, out


def bfs(run, modname, roots, actions, max_depth, budget_s, chunk_actions=8):
    """roots: list of root ids.  Explores each root's graph to max_depth (or the
    time budget).  Returns dict of statistics; violations are added to run."""
    mod = importlib.import_module(modname)
    stats = {"states": 0, "transitions": 0, "per_root": {}, "closed_roots": 0, "max_depth_completed": None}
    ctx = mp.get_context("fork")
    depth_done_all = max_depth
    g_wall, g_trans = 0.0, 0
    with cf.ProcessPoolExecutor(max_workers=core.NPROC, mp_context=ctx) as ex:
        for k_root, root in enumerate(roots):
            # every root gets an equal share of what is left of the budget
            if k_root == 0:
                t_start = time.time()
            left = budget_s - (time.time() - t_start)
            t_end = time.time() + max(5.0, left / (len(roots) - k_root))
            init_canon = mod.initial_canon(root)
            seen = {init_canon: ()}
            frontier = [()]
            depth = 0
            closed = False
            capped = False
            trans = 0
            outcomes = collections.Counter()
            flags = collections.Counter()
            dirty = 0
            level_sizes = [1]
            wall_per_trans = None
            while frontier and depth < max_depth:
                if wall_per_trans is not None and len(frontier) * len(actions) * wall_per_trans > (t_end - time.time()):
                    capped = True  # the next level does not fit into the budget: stop at a completed depth
                    break
                t_level = time.time()
                trans_before = trans
                tasks = []
                for h in frontier:
                    for i in range(0, len(actions), chunk_actions):
                        tasks.append((modname, root, h, actions[i : i + chunk_actions]))
                nxt = []
                futs = [ex.submit(_expand, t) for t in tasks]
                for f in cf.as_completed(futs):
                    root_id, hist, res = f.result()
                    for r in res:
                        trans += 1
                        outcomes[r["info"].get("outcome", "ok")] += 1
                        if r["info"].get("dirty_before"):
                            dirty += 1
                        for k, v in r["info"].items():
                            if v is True and k != "dirty_before":
                                flags[k] += 1
                        for v in r["viol"]:
                            if len(run.violations) < 3000:
                                run.violations.append(v)
                        sc = r["succ"]
                        if sc is not None and sc not in seen:
                            seen[sc] = hist + (r["action"],)
                            nxt.append(hist + (r["action"],))
                depth += 1
                g_wall += time.time() - t_level
                g_trans += trans - trans_before
                # per-transition wall time: prefer the long-run average (small levels are dominated by start-up)
                wall_per_trans = g_wall / max(1, g_trans) if g_trans > 2000 else (time.time() - t_level) / max(1, trans - trans_before)
                # deterministic order regardless of completion order
                nxt.sort()
                frontier = nxt
                level_sizes.append(len(nxt))
            if not frontier:
                closed = True
            stats["per_root"][str(root)] = {
                "states": len(seen),
                "transitions": trans,
                "depth_completed": depth,
                "closed": closed,
                "capped_by_time": capped,
                "level_sizes": level_sizes,
                "outcomes": dict(outcomes),
                "dirty_cache_before_action": dirty,
                "flags": dict(flags),
            }
            stats["states"] += len(seen)
            stats["transitions"] += trans
            stats["closed_roots"] += 1 if closed else 0
            depth_done_all = min(depth_done_all, depth)
            run.log(f"root {root}: states={len(seen)} transitions={trans} depth={depth} closed={closed} levels={level_sizes}")
    stats["max_depth_completed"] = depth_done_all
    return stats
