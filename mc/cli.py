"""./check <ID> quick|thorough | ./check <ID> --replay <file> | ./check --selftest"""
import importlib
import json
import os
import sys

from mc import core


def main(argv):
    if not argv:
        print(__doc__)
        return 2
    if argv[0] == "--selftest":
        from mc import selftest

        return selftest.main()
    pid = argv[0].upper()
    core.check_impl_location()
    mod = importlib.import_module(f"mc.props.{pid.lower()}")
    if len(argv) >= 3 and argv[1] == "--replay":
        with open(argv[2]) as f:
            rep = json.load(f)
        viols = mod.replay(rep["case"])
        if viols:
            for v in viols:
                print(f"VIOLATION property={pid} replay={argv[2]}")
                print("  sig=" + json.dumps(v.get("sig"), default=str))
                print("  detail=" + json.dumps(v.get("detail"), default=str)[:2000])
            return 1
        print(f"[{pid}] replay: case no longer violates the property")
        return 0
    tier = argv[1] if len(argv) > 1 else os.environ.get("VERIF_TIER", "quick")
    if tier not in ("quick", "thorough"):
        print(__doc__)
        return 2
    try:
        seed = int(os.environ.get("VERIF_SEED", "0"))
    except ValueError:
        seed = 0
    # per-case watchdog (a hang in the implementation must not hang the check): generous enough that a heavily loaded machine
    # does not trip it - thorough case blocks are up to ten times larger than quick ones
    os.environ.setdefault("VERIF_CASE_TIMEOUT", "900" if tier == "quick" else "3600")
    run = core.Run(pid, tier, seed, mod.LEVEL)
    mod.run(run)
    return run.finish()


if __name__ == "__main__":
    sys.exit(main(sys.argv[1:]))
