"""Larger structures than the product grammars reach: many gradients, many siblings, long paths, deep nesting.
Each function returns (label, document)."""
from mc.gen.docs import NS

_ST = '<stop offset="0" stop-color="red"/><stop offset="1" stop-color="blue"/>'


def many_gradients(n=12, transformed=True):
    defs = "".join(f'<linearGradient id="g{i}" x1="0" y1="0" x2="1" y2="{i % 2}">{_ST}</linearGradient>' for i in range(n))
    defs += "".join(f'<radialGradient id="r{i}" cx=".5" cy=".5" r=".{3 + i % 5}">{_ST}</radialGradient>' for i in range(n))
    body = ""
    for i in range(n):
        t = f' transform="translate({i % 3} {i % 2})"' if transformed else ""
        body += f'<rect x="{2 + 8 * (i % 12)}" y="{2 + 16 * (i // 12)}" width="7" height="12" fill="url(#g{i})"{t}/>'
        body += f'<circle cx="{5 + 8 * (i % 12)}" cy="{60 + 16 * (i // 12)}" r="3.5" fill="url(#r{i})"{t}/>'
    return f"gradients-{n}" + ("-xf" if transformed else ""), f'<svg {NS} viewBox="0 0 100 100"><defs>{defs}</defs>{body}</svg>'


def many_siblings(n=300):
    rects = "".join(f'<rect x="{(i % 20) * 5}" y="{(i // 20) * 6}" width="4" height="5"/>' for i in range(n))
    return f"siblings-{n}", f'<svg {NS} viewBox="0 0 100 100" fill="navy"><g opacity=".5" fill="red"><rect x="0" y="0" width="100" height="100" fill="yellow"/>{rects}</g></svg>'


def flat_siblings(n=300):
    rects = "".join(f'<rect x="{(i % 20) * 5}" y="{(i // 20) * 6}" width="4" height="5" fill="{("red", "green", "blue")[i % 3]}"/>' for i in range(n))
    return f"flat-{n}", f'<svg {NS} viewBox="0 0 100 100">{rects}</svg>'


def chained_subpaths(n=4, kind="HV"):
    seg = {"HV": "H{x2} v6 H{x1} z", "st": "q3,-6 6,0 t6,0 l0,5 l-12,0 z", "S": "c2,-6 6,-6 8,0 s6,6 8,0 l0,6 l-16,0 z"}[kind]
    d = "M5,10 " + seg.format(x1=5, x2=17)
    for i in range(1, n):
        d += f" m0,{12} " + seg.format(x1=5, x2=17 + 3 * i)
    return f"subpaths-{n}-{kind}", f'<svg {NS} viewBox="0 0 100 100"><path d="{d}" fill="teal"/></svg>'


def nested_opacity(depth=4):
    inner = '<rect x="40" y="40" width="30" height="30" fill="red" opacity=".3"/><rect x="50" y="50" width="30" height="30" fill="blue" opacity="0"/>'
    for k in range(depth):
        o = (".5", ".3", ".9", ".7", ".2")[k % 5]
        inner = f'<g opacity="{o}">{inner}<rect x="{5 + 7 * k}" y="{5 + 5 * k}" width="20" height="20" fill="green" opacity=".0{k + 1}"/></g>'
    return f"nested-opacity-{depth}", f'<svg {NS} viewBox="0 0 100 100">{inner}<circle cx="80" cy="20" r="10"/></svg>'


def deep_transforms(depth=6):
    inner = '<rect x="10" y="10" width="20" height="10" fill="purple"/>'
    for k in range(depth):
        inner = f'<g transform="{("translate(3 2)", "rotate(7)", "scale(1.1 .95)", "skewX(4)")[k % 4]}">{inner}<circle cx="{10 + 9 * k}" cy="70" r="3" fill="orange"/></g>'
    return f"deep-{depth}", f'<svg {NS} viewBox="0 0 100 100">{inner}</svg>'


def clip_many_children(n=10):
    kids = "".join(f'<circle cx="{20 + 6 * i}" cy="{30 + 4 * (i % 3)}" r="9"/>' for i in range(n))
    return f"clipkids-{n}", f'<svg {NS} viewBox="0 0 100 100"><defs><clipPath id="c">{kids}</clipPath></defs><rect x="5" y="5" width="90" height="80" fill="teal" clip-path="url(#c)"/></svg>'


def many_uses(n=5):
    uses = "".join(f'<use xlink:href="#t" x="{15 * i}" y="{9 * i}"/>' for i in range(n))
    return f"uses-{n}", f'<svg {NS} viewBox="0 0 100 100"><defs><linearGradient id="g" x2="1">{_ST}</linearGradient><g id="t"><rect width="12" height="8" fill="url(#g)"/><circle cx="6" cy="12" r="4" fill="gold"/></g></defs>{uses}</svg>'


def long_curve(n=60):
    import math

    pts = [(50 + (18 + 14 * math.sin(5 * a)) * math.cos(a), 50 + (18 + 14 * math.sin(5 * a)) * math.sin(a)) for a in (2 * math.pi * k / n for k in range(n))]
    d = f"M{pts[0][0]:.3f},{pts[0][1]:.3f}"
    for k in range(1, n + 1):
        p, q = pts[k % n], pts[(k - 1) % n]
        d += f" Q{(p[0] + q[0]) / 2 + 3 * math.cos(k):.3f},{(p[1] + q[1]) / 2 + 3 * math.sin(k):.3f} {p[0]:.3f},{p[1]:.3f}"
    return f"curve-{n}", f'<svg {NS} viewBox="0 0 100 100"><path d="{d} Z" fill="crimson" fill-rule="evenodd"/></svg>'


def long_polygon(n=150):
    import math

    pts = " ".join(f"{50 + (30 + 8 * (k % 2)) * math.cos(2 * math.pi * k / n):.3f},{50 + (30 + 8 * (k % 2)) * math.sin(2 * math.pi * k / n):.3f}" for k in range(n))
    return f"polygon-{n}", f'<svg {NS} viewBox="0 0 100 100"><polygon points="{pts}" fill="olive"/><polyline points="{pts}" fill="none" stroke="black" stroke-width=".5"/></svg>'


def big_wrapper(n=26):
    kids = "".join(f'<rect x="{(i % 10) * 9}" y="{(i // 10) * 9}" width="8" height="8" fill="{("red", "green")[i % 2]}"/>' for i in range(n))
    kids2 = kids.replace("<rect ", '<rect stroke-width="0" ')
    return f"wrapper-{n}", f'<svg {NS} viewBox="0 0 100 100"><g>{kids}</g><circle cx="50" cy="80" r="9" fill="blue"/><g opacity=".5"><g>{kids2}</g><rect x="1" y="90" width="5" height="5"/></g></svg>'


def all_docs(tier="quick"):
    out = [many_gradients(12, True), many_gradients(12, False), many_siblings(300), flat_siblings(300), nested_opacity(4), nested_opacity(3), deep_transforms(6), clip_many_children(10), many_uses(5), long_curve(60), long_polygon(150), big_wrapper(26)]
    for kind in ("HV", "st", "S"):
        for n in (3, 4):
            out.append(chained_subpaths(n, kind))
    if tier == "thorough":
        out += [many_gradients(25, True), many_siblings(600), nested_opacity(6), deep_transforms(10), clip_many_children(20), long_curve(200), long_polygon(400), big_wrapper(60)]
    return out
