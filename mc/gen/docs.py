"""Document grammars shared by C01 / C07 / C08 / C14 / C16 (supported and
unsupported node kinds, root attribute settings).  Pure functions of their
arguments: the same key always gives the same document."""
import itertools

NS = 'xmlns="http://www.w3.org/2000/svg" xmlns:xlink="http://www.w3.org/1999/xlink"'

# leaf kinds: name -> (defs snippet, body snippet, unsupported?)  {i} = instance index for unique ids
LEAVES = {
    "rect": ("", '<rect x="10" y="12" width="30" height="20" fill="red"/>', False),
    "rrect": ("", '<rect x="20" y="18" width="40" height="30" rx="6" fill="#00f"/>', False),
    "circle": ("", '<circle cx="50" cy="50" r="18.5" fill="green"/>', False),
    "ellipse": ("", '<ellipse cx="40" cy="60" rx="22" ry="9.25" fill="purple"/>', False),
    "line": ("", '<line x1="5" y1="90" x2="95" y2="70" stroke="black" stroke-width="4"/>', False),
    "polygon": ("", '<polygon points="60,10 90,40 55,45" fill="orange"/>', False),
    "polyline": ("", '<polyline points="5,5 25,30 45,8 60,35" fill="teal"/>', False),
    "pathrel": ("", '<path d="m10 40 h30 v20 s-5 10 -15 5 t-10 -5 z" fill="blue"/>', False),
    "patharc": ("", '<path d="M5e1 1e1 a10.5 5.25 30 1 0 20 .5e1 z m-20,30 q5-9 10,0t10 0" fill="maroon"/>', False),
    "stroked": ("", '<rect x="55" y="55" width="30" height="25" fill="none" stroke="green" stroke-width="3"/>', False),
    "fillstroke": ("", '<circle cx="30" cy="30" r="12" fill="yellow" stroke="navy" stroke-width="2.5" stroke-dasharray="4 2 1"/>', False),
    "stroke0w": ("", '<rect x="12" y="60" width="25" height="18" fill="red" stroke="blue" stroke-width="0" stroke-linejoin="round"/>', False),
    "stroke0op": ("", '<circle cx="75" cy="40" r="11" fill="orange" stroke="blue" stroke-width="3" stroke-opacity="0" stroke-dasharray="2 1"/>', False),
    "strokeonly0": ("", '<path d="M5,95 L40,90" stroke="black" stroke-width="0"/>', False),
    "evenodd": ("", '<path fill-rule="evenodd" d="M10 10h40v40h-40z M20 20h20v20h-20z" fill="gray"/>', False),
    "styled": ("", '<rect x="3" y="3" width="20" height="20" style="fill:lime;opacity:0.8"/>', False),
    "invisible": ("", '<rect x="70" y="5" width="0" height="10" fill="red"/>', False),
    "transparent": ("", '<circle cx="80" cy="80" r="9" fill="red" opacity="0"/>', False),
    "hidden": ("", '<rect x="1" y="1" width="5" height="5" display="none"/>', False),
    "xformed": ("", '<rect x="10" y="10" width="20" height="10" fill="olive" transform="rotate(30 20 15) scale(1.5,.75)"/>', False),
    "use": ('<rect id="t{i}" width="14" height="9" fill="fuchsia"/>', '<use xlink:href="#t{i}" x="33.3" y="44.4"/>', False),
    "usetwice": ('<g id="t{i}"><rect width="8" height="8"/><circle cx="12" cy="4" r="4" fill="red"/></g>', '<use xlink:href="#t{i}" x="5" y="70"/><use xlink:href="#t{i}" transform="translate(60 70) scale(2)"/>', False),
    "clipped": ('<clipPath id="c{i}"><circle cx="45" cy="45" r="20"/></clipPath>', '<rect x="30" y="30" width="40" height="40" fill="aqua" clip-path="url(#c{i})"/>', False),
    "lingrad": ('<linearGradient id="lg{i}" x1="0" y1="0" x2="1" y2="1"><stop offset="0" stop-color="red"/><stop offset="1" stop-color="blue"/></linearGradient>', '<rect x="15" y="65" width="50" height="25" fill="url(#lg{i})"/>', False),
    "radgrad": ('<radialGradient id="rg{i}" cx="50%" cy="50%" r="60%" fx="30%"><stop offset="10%" stop-color="white"/><stop offset="90%" stop-color="black" stop-opacity=".5"/></radialGradient>', '<circle cx="70" cy="30" r="16" fill="url(#rg{i})" transform="translate(3 4)"/>', False),
    "hrefgrad": ('<linearGradient id="tp{i}" gradientUnits="userSpaceOnUse" x1="10" x2="90"><stop offset="0" stop-color="#ff0"/><stop offset="1" stop-color="#0ff"/></linearGradient><linearGradient id="hg{i}" xlink:href="#tp{i}" y2="40" gradientTransform="rotate(10)"/>', '<ellipse cx="50" cy="20" rx="30" ry="10" fill="url(#hg{i})"/>', False),
    "hrefstray": ('<linearGradient id="hs{i}"><stop offset="0" stop-color="red" xlink:href="#y"/><stop offset="1" stop-color="blue"/></linearGradient>', '<path d="M60,60 L80,60 L80,80 Z" fill="url(#hs{i})" xlink:href="#q"/><g opacity=".5" xlink:href="#z"><rect x="1" y="80" width="5" height="5"/><rect x="3" y="82" width="7" height="7"/></g>', False),
    "styledx": ("", '<rect x="3" y="30" width="20" height="20" style="/* base */ -inkscape-stroke:none; -webkit-filter:none;fill:lime ! important;; mix-blend-mode : normal;opacity:0.8 /* tail */"/>', False),
    "gradanim": ('<linearGradient id="ga{i}"><stop offset="0" stop-color="red"><animate attributeName="offset" to="1" dur="2s"/></stop><set attributeName="x1" to="1"/><stop offset="1" stop-color="blue"/></linearGradient>', '<rect x="15" y="5" width="30" height="15" fill="url(#ga{i})"/>', True),
    "pathexp": ("", '<path d="M10,10 L2e-05,40 L-5e-05,20 7e-06 30 60 3e-07 Z" fill="red"/>', False),
    "gradinfpct": ('<linearGradient id="gi{i}" x1="-inf%" x2="1e999%"><stop offset="0" stop-color="red"/><stop offset="1" stop-color="blue"/></linearGradient>', '<rect x="15" y="45" width="50" height="15" fill="url(#gi{i})"/>', False),
    "nestedsvg": ("", '<svg x="10" y="10" width="40" height="30" viewBox="0 0 80 80"><rect x="-10" y="10" width="70" height="40" fill="brown"/></svg>', False),
    "symbolid": ('<symbol id="s{i}"><rect width="5" height="5"/></symbol>', "", True),
    "symbolanon": ("", '<symbol><rect width="5" height="5"/></symbol>', False),
    "text": ("", '<text x="10" y="50"><tspan>hi</tspan> there</text>', True),
    "textlink": ("", '<text x="10" y="60">see <a xlink:href="http://example.com/">this</a></text>', True),
    "textimage": ("", '<text x="10" y="70">x<image width="4" height="4" xlink:href="data:image/png;base64,AAAA"/><animate attributeName="x" to="5"/></text>', True),
    "filter": ('<filter id="f{i}"><feGaussianBlur stdDeviation="2"/></filter>', "", True),
    "mask": ('<mask id="m{i}"><rect width="50" height="50" fill="white"/></mask>', "", True),
    "image": ("", '<image x="0" y="0" width="10" height="10" xlink:href="data:image/png;base64,AAAA"/>', True),
    "style": ("", "<style>rect {{ fill: red }}</style>", True),
    "pattern": ('<pattern id="p{i}" width="4" height="4" patternUnits="userSpaceOnUse"><rect width="2" height="2"/></pattern>', "", True),
    "a": ("", '<a xlink:href="http://example.com/"><rect x="40" y="40" width="10" height="10"/></a>', True),
    "foreignObject": ("", '<foreignObject width="10" height="10"><p xmlns="http://www.w3.org/1999/xhtml">x</p></foreignObject>', True),
    "comment": ("", "<!-- a comment -->", False),
    "pi": ("", "<?xpacket begin='x'?>", False),
    "foreignel": ("", '<sodipodi:namedview xmlns:sodipodi="http://sodipodi.sourceforge.net/DTD/sodipodi-0.dtd" pagecolor="#fff"><sodipodi:guide/></sodipodi:namedview>', False),
    "foreignattr": ("", '<rect x="60" y="2" width="12" height="6" fill="red" inkscape:label="L" xmlns:inkscape="http://www.inkscape.org/namespaces/inkscape"/>', False),
    "titledesc": ("", "<title>t</title><desc>d</desc><metadata><x/></metadata>", False),
}

# leaves allowed inside generated groups
GROUP_LEAVES = ["rect", "circle", "stroked", "invisible", "image", "lingrad"]
GROUP_ATTRS = {
    "g": "",
    "gop": ' opacity="0.5"',
    "gop1": ' opacity="1"',
    "gxf": ' transform="translate(4 -3) rotate(15)"',
    "gfill": ' fill="crimson" fill-opacity=".5"',
    "gopxf": ' opacity=".25" transform="scale(.5)"',
    # a translucent group that also carries attributes nothing inherits or handles (they must not survive on a kept group)
    "gopx": ' opacity=".4" class="layer" visibility="visible" aria-label="l" data-name="n" pointer-events="none" style="mix-blend-mode:multiply;isolation:isolate"',
}

ROOT_ATTRS = {
    "none": "",
    "fill": ' fill="navy"',
    "stroke": ' stroke="red" stroke-width="2"',
    "opacity": ' opacity="0.5"',
    "style": ' style="fill:green;stroke:none"',
    "transform": ' transform="translate(5 5)"',
    "fillrule": ' fill-rule="evenodd" clip-rule="evenodd"',
    "href": ' xlink:href="#nowhere" id="rootid"',
}


# nested groups: outer group holding a shape and an inner group whose content vanishes late (or not)
_R = '<rect x="10" y="12" width="30" height="20" fill="red"/>'
_C = '<circle cx="30" cy="30" r="14" fill="green"/>'
_INV = '<rect x="70" y="5" width="0" height="10" fill="red"/>'
_TR = '<circle cx="80" cy="80" r="9" fill="red" opacity="0"/>'
_IMG = '<image x="0" y="0" width="10" height="10" xlink:href="data:image/png;base64,AAAA"/>'
NESTED = {}
for _on, _oa in (("gop", ' opacity="0.5"'), ("gopxf", ' opacity=".25" transform="scale(.5)"'), ("g", "")):
    for _in, _ia in (("gop", ' opacity="0.4"'), ("g", ""), ("gop1", ' opacity="1"')):
        for _cn, _inner in (("vanish", _INV + _TR), ("unsup", _IMG + _INV), ("half", _C + _INV), ("full", _R + _C), ("empty", "")):
            NESTED[f"N{_on}.{_in}.{_cn}.after"] = (f"<g{_oa}>{_R}<g{_ia}>{_inner}</g></g>", _cn == "unsup")
            NESTED[f"N{_on}.{_in}.{_cn}.before"] = (f"<g{_oa}><g{_ia}>{_inner}</g>{_C}</g>", _cn == "unsup")
            NESTED[f"N{_on}.{_in}.{_cn}.only"] = (f"<g{_oa}><g{_ia}>{_inner}</g></g>", _cn == "unsup")
            NESTED[f"N{_on}.{_in}.{_cn}.deep"] = (f"<g{_oa}>{_R}<g{_ia}><g{_oa}>{_inner}</g>{_INV}</g></g>", _cn == "unsup")


def kinds(scope):
    """top-level kind names for a scope"""
    base = list(LEAVES)
    groups = [f"{g}:{a}" for g in GROUP_ATTRS for a in GROUP_LEAVES] + [
        f"{g}:{a}+{b}" for g in GROUP_ATTRS for a in GROUP_LEAVES for b in GROUP_LEAVES
    ]
    gclip = [f"gclip:{a}+{b}" for a in ("rect", "circle") for b in ("stroked", "lingrad")]
    if scope == "base":
        return base
    if scope == "groups":
        return groups + gclip + list(NESTED)
    return base + groups + gclip + list(NESTED)


def _leaf(name, i):
    d, b, u = LEAVES[name]
    return d.replace("{i}", str(i)).replace("{{", "{").replace("}}", "}"), b.replace("{i}", str(i)).replace("{{", "{").replace("}}", "}"), u


def snippet(kind, i):
    """-> (defs, body, unsupported)"""
    if kind in NESTED:
        return "", NESTED[kind][0], NESTED[kind][1]
    if ":" not in kind:
        return _leaf(kind, i)
    g, rest = kind.split(":")
    parts = rest.split("+")
    defs, body, uns = "", "", False
    for k, p in enumerate(parts):
        d, b, u = _leaf(p, f"{i}_{k}")
        defs += d
        body += b
        uns = uns or u
    if g == "gclip":
        defs += f'<clipPath id="gc{i}"><rect x="20" y="20" width="50" height="50"/></clipPath>'
        return defs, f'<g clip-path="url(#gc{i})">{body}</g>', uns
    return defs, f"<g{GROUP_ATTRS[g]}>{body}</g>", uns


def document(kinds_seq, root="none", drop_unsupported_nodes=False, viewbox="0 0 100 100"):
    defs, body = "", ""
    for i, k in enumerate(kinds_seq):
        d, b, u = snippet(k, i)
        if drop_unsupported_nodes and (u or _has_unsupported(k)):
            if k in NESTED:
                b = b.replace(_IMG, "")
                defs += d
                body += b
                continue
            if ":" in k:
                # rebuild the group without its unsupported leaves
                g, rest = k.split(":")
                keep = [p for p in rest.split("+") if not LEAVES[p][2]]
                if not keep:
                    continue
                d, b, u = snippet(g + ":" + "+".join(keep), i)
            else:
                continue
        defs += d
        body += b
    defs_el = f"<defs>{defs}</defs>" if defs else ""
    vb = f' viewBox="{viewbox}"' if viewbox else ""
    return f"<svg {NS}{vb}{ROOT_ATTRS[root]}>{defs_el}{body}</svg>"


def _has_unsupported(kind):
    if kind in NESTED:
        return NESTED[kind][1]
    if ":" not in kind:
        return LEAVES[kind][2]
    return any(LEAVES[p][2] for p in kind.split(":")[1].split("+"))


def has_unsupported(kinds_seq):
    return any(_has_unsupported(k) for k in kinds_seq)


FORBIDDEN_IN_OUTPUT = {
    "rect", "rrect", "circle", "ellipse", "line", "polygon", "polyline", "pathrel", "patharc", "stroked", "fillstroke",
    "evenodd", "styled", "xformed", "stroke0w", "stroke0op", "strokeonly0", "use", "usetwice", "clipped", "nestedsvg", "symbolanon", "comment", "pi",
    "foreignel", "foreignattr", "titledesc", "hrefgrad", "radgrad", "invisible", "transparent", "hidden",
}
