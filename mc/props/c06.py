"""C06 - rewritten gradients assign the same colour to every point of their shapes.

E2 + R3 gradient evaluator: product of gradient kind x coordinate style x
gradientUnits x gradientTransform x spreadMethod x href template pattern x
radial focus x shape x shape transform chain.  For every lattice point strictly
inside the shape the raw gradient parameter and the colour computed from the
source gradient must equal those computed from the output's gradient.
"""
import itertools

import numpy as np

from mc import core
from mc.gen.docs import NS
from mc.props import render_common as RC
from mc.ref import gradient, picogrammar as R4, scene

ID = "C06"
LEVEL = "exploration"
MOD = "mc.props.c06"

STOPS = '<stop offset="0" stop-color="#f00"/><stop offset=".45" style="stop-color:#0f0;stop-opacity:.75"/><stop offset="100%" stop-color="#00f"/>'

COORDS = {
    ("linear", "defaults", "objectBoundingBox"): "",
    ("linear", "defaults", "userSpaceOnUse"): "",
    ("linear", "numbers", "objectBoundingBox"): ' x1=".1" y1=".2" x2=".9" y2=".7"',
    ("linear", "numbers", "userSpaceOnUse"): ' x1="15" y1="20" x2="80" y2="60"',
    ("linear", "percent", "objectBoundingBox"): ' x1="10%" y1="20%" x2="90%" y2="70%"',
    ("linear", "percent", "userSpaceOnUse"): ' x1="15%" y1="20%" x2="80%" y2="60%"',
    ("radial", "defaults", "objectBoundingBox"): "",
    ("radial", "defaults", "userSpaceOnUse"): "",
    ("radial", "numbers", "objectBoundingBox"): ' cx=".45" cy=".55" r=".5"',
    ("radial", "numbers", "userSpaceOnUse"): ' cx="45" cy="50" r="38"',
    ("radial", "percent", "objectBoundingBox"): ' cx="45%" cy="55%" r="50%"',
    ("radial", "percent", "userSpaceOnUse"): ' cx="45%" cy="50%" r="38%"',
}
FOCUS = {
    "none": {"objectBoundingBox": "", "userSpaceOnUse": ""},
    "fx": {"objectBoundingBox": ' fx=".3"', "userSpaceOnUse": ' fx="35"'},
    "fxfy": {"objectBoundingBox": ' fx=".3" fy=".4"', "userSpaceOnUse": ' fx="35" fy="42"'},
    "fr": {"objectBoundingBox": ' fx=".35" fy=".5" fr=".1"', "userSpaceOnUse": ' fx="38" fy="46" fr="6"'},
    "fxpct": {"objectBoundingBox": ' fx="30%" fy="40%"', "userSpaceOnUse": ' fx="35%" fy="42%"'},
    # round 7: a percentage focal radius (user space: of the normalised diagonal of the 110 x 95 viewBox, not of its width)
    "frpct": {"objectBoundingBox": ' fx="38%" fy="46%" fr="25%"', "userSpaceOnUse": ' fx="38%" fy="46%" fr="25%"'},
}
GT = {
    "none": {"objectBoundingBox": None, "userSpaceOnUse": None},
    "translate": {"objectBoundingBox": "translate(.1,-.05)", "userSpaceOnUse": "translate(5,-3)"},
    "scaletr": {"objectBoundingBox": "scale(2,.5) translate(.05,.1)", "userSpaceOnUse": "scale(2,.5) translate(3,20)"},
    "rotate": {"objectBoundingBox": "rotate(30)", "userSpaceOnUse": "rotate(30)"},
    "matrix": {"objectBoundingBox": "matrix(.8,.3,-.2,1.1,.04,-.06)", "userSpaceOnUse": "matrix(.8,.3,-.2,1.1,4,-6)"},
    # the same kind of list in the other number spellings (upper / lower case exponents, no space between the operations)
    "expo": {"objectBoundingBox": "scale(15E-1,.8e0)translate(1E-1 -.5e-1)", "userSpaceOnUse": "scale(15E-1,.8e0)translate(1E1,-5E0)"},
}
SHAPES = {
    "rect": '<rect x="20" y="25" width="50" height="40" fill="url(#g)"{t}/>',
    "circle": '<circle cx="50" cy="50" r="28" fill="url(#g)"{t}/>',
    "path": '<path d="M20,50 C20,15 80,15 78,48 S45,90 20,50 Z" fill="url(#g)"{t}/>',
}
CHAINS = {
    "none": ("", ""),
    "translate": (' transform="translate(6,-4)"', ""),
    "rotscale": (' transform="rotate(20) scale(1.2,.8)"', ""),
    "groupmatrix": (' transform="matrix(.9,.2,-.1,1.1,3,2)"', "translate(5,5)"),
    "mirror": (' transform="matrix(-1,0,0,1,100,0)"', ""),  # axis-aligned but orientation reversing
    "flipscale": (' transform="scale(1.1,-.9) translate(0,-95)"', ""),
}


def document(kind, coords, units, gt, spread, href, focus, shape, chain):
    tag = "linearGradient" if kind == "linear" else "radialGradient"
    attrs = COORDS[(kind, coords, units)]
    if kind == "radial":
        if coords == "defaults" and focus not in ("none",):
            attrs += FOCUS[focus][units]
        elif coords != "defaults":
            attrs += FOCUS[focus][units]
    if units == "userSpaceOnUse":
        attrs += ' gradientUnits="userSpaceOnUse"'
    g = GT[gt][units]
    if g:
        attrs += f' gradientTransform="{g}"'
    if spread != "pad":
        attrs += f' spreadMethod="{spread}"'
    if href in ("partial", "partial-after"):
        # the template carries units / transform / spread / all coordinates and is itself used by a second shape;
        # the referencing gradient overrides ONE coordinate.  "-after": the template is defined after its user.
        if kind == "linear":
            over = ' x1="30"' if units == "userSpaceOnUse" else ' x1=".3"'
        else:
            over = ' cx="40"' if units == "userSpaceOnUse" else ' cx=".4"'
        tattrs = attrs if coords != "defaults" else attrs + (COORDS[(kind, "numbers", units)])
        if kind == "radial" and coords == "defaults":
            tattrs += FOCUS[focus][units] if focus != "none" and FOCUS[focus][units] not in tattrs else ""
        t = f'<{tag} id="t"{tattrs}>{STOPS}</{tag}>'
        gdef = f'<{tag} id="g" xlink:href="#t"{over}/>'
        defs = (t + gdef) if href == "partial" else (gdef + t)
    elif href == "none":
        defs = f'<{tag} id="g"{attrs}>{STOPS}</{tag}>'
    elif href == "attrs":
        # template supplies every attribute, the referencing gradient only its stops
        defs = f'<{tag} id="t"{attrs}><stop offset="0" stop-color="white"/></{tag}><{tag} id="g" xlink:href="#t">{STOPS}</{tag}>'
    elif href == "stops":
        defs = f'<linearGradient id="t" x1="0.5" spreadMethod="repeat">{STOPS}</linearGradient><{tag} id="g" xlink:href="#t"{attrs}{"" if spread != "pad" else " spreadMethod=" + chr(34) + "pad" + chr(34)}/>'
    elif href in ("chain3", "chain3own", "chain3-rev"):
        # three levels, the *grandparent* supplies units / transform / spread (and the stops unless the leaf has its own);
        # templates are defined before their users, as authoring tools emit them
        a2 = ""
        own = attrs
        for key in (' gradientUnits="userSpaceOnUse"', f' gradientTransform="{g}"' if g else None, f' spreadMethod="{spread}"' if spread != "pad" else None):
            if key and key in own:
                own = own.replace(key, "")
                a2 += key
        leaf_stops = STOPS if href == "chain3own" else ""
        t2_stops = '<stop offset="0" stop-color="white"/><stop offset="1" stop-color="black"/>' if href == "chain3own" else STOPS
        parts = [f'<{tag} id="t2"{a2}>{t2_stops}</{tag}>', f'<{tag} id="t1" xlink:href="#t2"/>', f'<{tag} id="g" xlink:href="#t1"{own}>{leaf_stops}</{tag}>']
        defs = "".join(parts if href != "chain3-rev" else parts[::-1])  # -rev: every template is defined after its user
    else:  # chain of two: g -> t1 (transform/units/spread) -> t2 (stops)
        a1 = ""
        own = attrs
        for key in (' gradientUnits="userSpaceOnUse"', f' gradientTransform="{g}"' if g else None, f' spreadMethod="{spread}"' if spread != "pad" else None):
            if key and key in own:
                own = own.replace(key, "")
                a1 += key
        parts = [f'<{tag} id="t2">{STOPS}</{tag}>', f'<{tag} id="t1" xlink:href="#t2"{a1}/>', f'<{tag} id="g" xlink:href="#t1"{own}/>']
        defs = "".join(parts if href != "chain-rev" else parts[::-1])
    st, gtrans = CHAINS[chain]
    body = SHAPES[shape].format(t=st)
    extra = '<rect x="2" y="2" width="9" height="7" fill="url(#t)"/>' if href in ("partial", "partial-after") else ""
    if gtrans:
        body = f'<g transform="{gtrans}">{body}</g>'
    return f'<svg {NS} viewBox="0 0 110 95"><defs>{defs}</defs>{body}{extra}</svg>'


SHARED_SHAPES = {
    "rect+circle": ('<rect x="12" y="15" width="38" height="30" fill="url(#g)"{a}/>', '<circle cx="72" cy="58" r="20" fill="url(#g)"{b}/>'),
    "rect+rect": ('<rect x="12" y="15" width="38" height="30" fill="url(#g)"{a}/>', '<rect x="55" y="45" width="24" height="36" fill="url(#g)"{b}/>'),
    "same-geometry": ('<rect x="30" y="25" width="34" height="30" fill="url(#g)"{a}/>', '<rect x="30" y="25" width="34" height="30" fill="url(#g)" fill-opacity=".5"{b}/>'),
}
SHARED_T = {
    "none": "",
    "translate": ' transform="translate(7,-5)"',
    "scale": ' transform="scale(1.15,.85)"',
    "rotate": ' transform="rotate(12 50 50)"',
    "matrix": ' transform="matrix(.9,.15,-.1,1.05,4,1)"',
    "mirror": ' transform="matrix(-1,0,0,1,104,0)"',
}


def shared_document(kind, coords, units, gt, shapes, ta, tb, wrap):
    """ONE gradient painted on two shapes whose transform chains differ: each shape must keep its own colours."""
    tag = "linearGradient" if kind == "linear" else "radialGradient"
    attrs = COORDS[(kind, coords, units)]
    if units == "userSpaceOnUse":
        attrs += ' gradientUnits="userSpaceOnUse"'
    g = GT[gt][units]
    if g:
        attrs += f' gradientTransform="{g}"'
    a, b = SHARED_SHAPES[shapes]
    a, b = a.format(a=SHARED_T[ta]), b.format(b=SHARED_T[tb])
    if wrap == "group-b":
        b = f'<g transform="translate(-6,4)">{b}</g>'
    elif wrap == "group-both":
        a, b = f'<g transform="matrix(1.05,0,.1,.95,2,3)">{a}{b}</g>', ""
    elif wrap == "use-b":
        # the second painted shape is a <use> copy of the first
        b = f'<use xlink:href="#sa" x="30" y="28"{SHARED_T[tb]}/>'
        a = a.replace("<rect ", '<rect id="sa" ', 1)
    return f'<svg {NS} viewBox="0 0 110 95"><defs><{tag} id="g"{attrs}>{STOPS}</{tag}></defs>{a}{b}</svg>'


def tiny_document(kind, gt, chain, m):
    """the same kind of picture drawn in a user space of size ~0.02: gradient vectors of length ~0.015, gradientTransform
    translations at and below 1e-4 (they are NOT negligible here)"""
    f = lambda v: f"{v * m:.10g}"
    tag = "linearGradient" if kind == "linear" else "radialGradient"
    if kind == "linear":
        attrs = f' x1="{f(15)}" y1="{f(20)}" x2="{f(80)}" y2="{f(60)}"'
    else:
        attrs = f' cx="{f(45)}" cy="{f(50)}" r="{f(38)}" fx="{f(38)}" fy="{f(46)}"'
    g = {"t1": "translate(0.0001,-0.00008)", "t2": "translate(0.00005 0.0001)", "m": "matrix(1 0 0 1 -0.0001 0.0001)", "rt": "rotate(20) translate(0.0001,0.00003)", "none": None}[gt]
    if g:
        attrs += f' gradientTransform="{g}"'
    st = {"none": "", "translate": f' transform="translate({f(6)},{f(-4)})"', "rotscale": ' transform="rotate(20) scale(1.2,.8)"'}[chain]
    return (
        f'<svg {NS} viewBox="0 0 {f(110)} {f(95)}"><defs><{tag} id="g" gradientUnits="userSpaceOnUse"{attrs}>{STOPS}</{tag}></defs>'
        f'<rect x="{f(20)}" y="{f(25)}" width="{f(50)}" height="{f(40)}" fill="url(#g)"{st}/></svg>'
    )


def judge(doc, tier, seed, convert_kw=None):
    o, out = RC.convert(doc, **(convert_kw or {}))
    if o != "returned":
        return o, f"conversion of a supported gradient document failed: {out}", "raised", None, {}, out
    try:
        S = scene.build(doc)
        O = scene.build(out)
    except scene.Unsupported as e:
        return "oracle-unsupported", f"reference renderer cannot read the output: {e}", "bad-output", None, {}, out
    G = 24 if tier == "quick" else 36
    pts = scene.lattice(S.viewbox, G, seed % 8)
    cs, co = S.coverage(pts), O.coverage(pts)
    gl_s = [l for l in S.leaves if l.paint[0] == "grad"]
    gl_o = [l for l in O.leaves if l.paint[0] == "grad"]
    stats = {"compared": 0}
    if len(gl_s) < 1 or len(gl_s) != len(gl_o):
        return o, f"gradient-filled leaves: {len(gl_s)} in the source, {len(gl_o)} in the output", "render", None, stats, out
    if len(gl_s) > 1:
        # further gradient-filled shapes (a template used directly, a shared gradient): whole-document comparison
        r = scene.compare(doc, out, G=G, phase=seed % 8)
        if not r["ok"]:
            return o, r["why"], "render", None, stats, out
    worst = None
    for ls, lo in zip(gl_s, gl_o):
        res = _judge_leaf(o, out, ls, lo, cs, co, pts, dict(stats))
        if res[1]:
            return res
        if worst is None or (res[3] or 0) > (worst[3] or 0):
            worst = res
    o, why, kind, span, stats, out = worst
    bad = R4.validate(out, ndigits=(convert_kw or {}).get("ndigits", 3), require_stops=True)
    if bad:
        return o, "output gradient not self-contained / grammar: " + "; ".join(bad)[:300], "grammar", span, stats, out
    return o, None, None, span, stats, out


def _judge_leaf(o, out, ls, lo, cs, co, pts, stats):
    inside = (cs[ls.index] == 1) & (co[lo.index] == 1)
    idx = np.nonzero(inside)[0]
    stats["compared"] = int(len(idx))
    # geometry must agree too
    mism = ((cs[ls.index] == 1) & (co[lo.index] == 0)) | ((cs[ls.index] == 0) & (co[lo.index] == 1))
    if mism.any():
        p = pts[np.nonzero(mism)[0][0]]
        return o, f"shape geometry differs at ({p[0]:.2f},{p[1]:.2f})", "render", None, stats, out
    if len(idx) < 10:
        return o, None, None, None, stats, out
    P = pts[idx]
    ts, rgb_s, a_s = gradient.evaluate(ls.paint[1], P, ls.paint[2], ls.paint[3])
    to, rgb_o, a_o = gradient.evaluate(lo.paint[1], P, lo.paint[2], lo.paint[3])
    fin = np.isfinite(ts) & np.isfinite(to)
    span = float(ts[fin].max() - ts[fin].min()) if fin.any() else 0.0
    stats["t_span"] = span
    why = None
    if (np.isfinite(ts) != np.isfinite(to)).any():
        k = int(np.nonzero(np.isfinite(ts) != np.isfinite(to))[0][0])
        why = f"gradient parameter defined on one side only at ({P[k][0]:.2f},{P[k][1]:.2f}): source {ts[k]}, output {to[k]}"
    elif fin.any():
        dt = np.abs(ts[fin] - to[fin])
        k = int(dt.argmax())
        stats["max_dt"] = float(dt[k])
        if dt[k] > 1e-3 * max(1.0, abs(float(ts[fin][k]))):
            q = P[fin][k]
            why = f"gradient parameter differs at ({q[0]:.2f},{q[1]:.2f}): source t={ts[fin][k]:.5f}, output t={to[fin][k]:.5f}"
    if why is None:
        dc = np.abs(np.concatenate([rgb_s * a_s[:, None], 255 * a_s[:, None]], 1) - np.concatenate([rgb_o * a_o[:, None], 255 * a_o[:, None]], 1)).max(1)
        k = int(dc.argmax())
        stats["max_colour_diff"] = float(dc[k])
        if dc[k] > 2.5:
            why = f"colour differs at ({P[k][0]:.2f},{P[k][1]:.2f}): source {np.round(rgb_s[k]).tolist()} a={a_s[k]:.3f}, output {np.round(rgb_o[k]).tolist()} a={a_o[k]:.3f}"
    if why:
        return o, why, "render", span, stats, out
    return o, None, None, span, stats, out


def evaluate_tiny(case):
    k = case["k"]
    doc = tiny_document(*k)
    o, why, kind, span, st, out = judge(doc, case["tier"], case["seed"], {"ndigits": 8})
    nt = doc if (span is not None and span >= 0.3 and st.get("compared", 0) >= 30) else None
    rec = {"out": "tiny/" + o, "nt": nt, "viol": [], "cnt": {"compared_points": st.get("compared", 0)}}
    if why:
        rec["viol"].append({"sig": {"kind": kind, "fam": "tiny", "gkind": k[0], "gt": k[1]}, "case": {"fam": "t", "k": k, "doc": doc}, "detail": {"why": why, "output": out[:2500], "stats": st}})
    return rec


def tiny_cases(tier):
    for kind, gt, chain, m in itertools.product(["linear", "radial"], ["t1", "t2", "m", "rt", "none"], ["none", "translate", "rotscale"], [2e-4, 1e-3] if tier == "quick" else [1e-4, 2e-4, 5e-4, 1e-3, 1e-2]):
        yield (kind, gt, chain, m)


def evaluate(case):
    if case.get("fam") == "s":
        return evaluate_shared(case)
    if case.get("fam") == "t":
        return evaluate_tiny(case)
    doc = document(*case["k"])
    o, why, kind, span, st, out = judge(doc, case["tier"], case["seed"])
    nt = doc if (span is not None and span >= 0.3 and st.get("compared", 0) >= 30) else None
    rec = {"out": o, "nt": nt, "viol": [], "cnt": {"compared_points": st.get("compared", 0)}}
    if why:
        k = case["k"]
        rec["viol"].append({"sig": {"kind": kind, "gkind": k[0], "units": k[2], "href": k[5], "chain": k[8]}, "case": {"fam": "g", "k": k, "doc": doc}, "detail": {"why": why, "output": out[:2500], "stats": st}})
    if nt and case["k"][8] != "none":
        rec["sample"] = None
    return rec


def evaluate_shared(case):
    k = case["k"]
    doc = shared_document(*k)
    o, why, kind, span, st, out = judge(doc, case["tier"], case["seed"])
    nt = doc if (span is not None and span >= 0.2 and st.get("compared", 0) >= 20) else None
    rec = {"out": "shared/" + o, "nt": nt, "viol": [], "cnt": {"compared_points": st.get("compared", 0)}}
    if why:
        rec["viol"].append({"sig": {"kind": kind, "fam": "shared", "gkind": k[0], "units": k[2], "wrap": k[7]}, "case": {"fam": "s", "k": k, "doc": doc}, "detail": {"why": why, "output": out[:2500], "stats": st}})
    return rec


def shared_cases(tier):
    ts = list(SHARED_T)
    for kind, units, gt, shapes, wrap in itertools.product(["linear", "radial"], ["objectBoundingBox", "userSpaceOnUse"], ["none", "rotate", "matrix"] if tier == "quick" else list(GT), list(SHARED_SHAPES), ["none", "group-b", "group-both", "use-b"]):
        for ta, tb in itertools.product(ts, ts):
            if wrap == "use-b" and shapes != "rect+rect":
                continue
            if tier == "quick" and (ta, tb) not in (("none", "translate"), ("translate", "none"), ("scale", "rotate"), ("matrix", "matrix"), ("none", "none"), ("rotate", "matrix"), ("mirror", "none"), ("translate", "mirror")):
                continue
            for coords in (["numbers"] if tier == "quick" else ["defaults", "numbers", "percent"]):
                yield (kind, coords, units, gt, shapes, ta, tb, wrap)


def all_cases(tier):
    kinds = ["linear", "radial"]
    coords = ["defaults", "numbers", "percent"]
    units = ["objectBoundingBox", "userSpaceOnUse"]
    gts = list(GT)
    if tier == "quick":
        spreads, hrefs, foci, shapes, chains = ["pad", "reflect"], ["none", "attrs", "chain", "chain3", "chain3own", "partial", "partial-after", "chain-rev", "chain3-rev"], ["none", "fxfy", "fr", "fxpct", "frpct"], ["rect", "path"], ["none", "translate", "rotscale", "groupmatrix", "mirror", "flipscale"]
    else:
        spreads, hrefs, foci, shapes, chains = ["pad", "reflect", "repeat"], ["none", "attrs", "stops", "chain", "chain3", "chain3own", "partial", "partial-after", "chain-rev", "chain3-rev"], list(FOCUS), list(SHAPES), list(CHAINS)
    for kind in kinds:
        fs = foci if kind == "radial" else ["none"]
        for c, u, g, sp, h, f, sh, ch in itertools.product(coords, units, gts, spreads, hrefs, fs, shapes, chains):
            if tier == "quick" and sp == "reflect" and (h not in ("none", "chain3", "chain-rev") or ch == "none"):
                continue
            if tier == "quick" and h in ("chain3", "chain3own", "chain-rev", "chain3-rev") and (c == "percent" or g in ("translate", "matrix")):
                continue
            if h in ("partial", "partial-after") and (c == "percent" or (tier == "quick" and (g in ("matrix",) or sh == "path"))):
                continue
            if tier == "quick" and sh == "path" and (g in ("translate",) or c == "percent"):
                continue
            yield (kind, c, u, g, sp, h, f, sh, ch)


def corpus_for_c07(tier, seed):
    for k, c in enumerate(all_cases("quick")):
        if k % (9 if tier == "quick" else 2) == 0:
            yield document(*c)


def cases(tier, seed):
    for k in all_cases(tier):
        yield {"k": list(k), "tier": tier, "seed": seed}
    for k in shared_cases(tier):
        yield {"fam": "s", "k": list(k), "tier": tier, "seed": seed}
    for k in tiny_cases(tier):
        yield {"fam": "t", "k": list(k), "tier": tier, "seed": seed}


def run(run):
    run.rule = (
        "E2 + R3 gradient evaluator: kind {linear, radial} x coordinates {defaults, numbers, percentages} x gradientUnits 2 x gradientTransform {none, translate, scale.translate, rotate, matrix} "
        "x spreadMethod x href {none, template supplies attributes, template supplies stops, chain of two} x radial focus {none, fx, fx+fy, fr, percentages, percentage fr (non-square viewBox)} x shape {rect, circle, path} x "
        "shape transform chain {none, translate, rotate.scale, group translate + own matrix, mirror, flip.scale} (quick: reduced spread/href/focus/shape alphabets); ONE gradient shared by two shapes "
        "(3 shape pairs incl. coincident geometry); the picture in a user space of size 0.02-1 (conversion with ndigits=8) with gradientTransform translations at / below 1e-4; ONE gradient shared: (3 shape pairs incl. coincident geometry) x own transforms {none, translate, scale, rotate, matrix, mirror}^2 x {no group, group around the second, group around both, second shape a <use> of the first}. Oracle: at every lattice point strictly inside "
        "the shape in both renderings the raw gradient parameter agrees within 1e-3 and the colour within 2.5/255; output gradients self-contained (R4 with own stops). "
        "Non-trivial = compared points span >= 0.3 of the gradient parameter range and >= 30 points compared."
    )
    run.assumptions = ["bounding-box units together with clipping/stroking are out of the statement's scope and not generated", "focal points strictly inside the end circle (SVG 1.1 and 2 agree there)"]
    run.floor_nt = 300
    run.run_cases(MOD, cases(run.tier, run.seed), chunk=16)
    run.cov["compared_points"] = int(run.cnt.get("compared_points", 0))


def replay(case):
    doc = case.get("doc") or (shared_document(*case["k"]) if case.get("fam") == "s" else document(*case["k"]))
    o, why, kind, span, st, out = judge(doc, "quick", 0, {"ndigits": 8} if case.get("fam") == "t" else None)
    if why:
        return [{"sig": {"kind": kind}, "case": case, "detail": {"why": why, "output": out[:2500]}}]
    return []
