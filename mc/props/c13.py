"""C13 - boolean path operations compute the set operation under each operand's fill rule.

E2 + R3 winding evaluator: operand tuples from a library of outlines
(self-intersecting, multi-contour, curved, open) at several offsets x a fill
rule per operand x {union, intersection, difference, remove_overlaps}, through
svg_pathops.*, the shape-level wrappers and SVGPath.remove_overlaps; plus a
degenerate family (shared edges, coincident contours, touching vertices).
"""
import collections
import itertools

import numpy as np

from mc import core
from mc.ref import pathdata as R1
from mc.ref import scene

ID = "C13"
LEVEL = "exploration"
MOD = "mc.props.c13"

LIB = {
    "square": "M10,10 L50,10 L50,50 L10,50 Z",
    "triangle": "M12,48 L55,40 L30,8 Z",
    "bowtie": "M10,12 L52,50 L52,12 L10,50 Z",
    "pentagram": "M32,6 L47,52 L8,23 L56,23 L17,52 Z",
    "nested_same": "M8,8 L56,8 L56,56 L8,56 Z M20,20 L44,20 L44,44 L20,44 Z",
    "nested_opp": "M8,8 L56,8 L56,56 L8,56 Z M20,20 L20,44 L44,44 L44,20 Z",
    "blob": "M10,30 C10,5 50,5 52,28 C54,55 12,58 10,30 Z",
    "lens": "M10,30 Q32,2 54,30 Q32,58 10,30 Z",
    "openpoly": "M12,12 L54,18 L30,52",
    "opencurve": "M10,45 C20,5 45,5 55,45",
    "two": "M8,8 L28,8 L28,28 L8,28 Z M36,34 L58,34 L58,56 L36,56 Z",
    "tiny": "M30,30 L32,30 L32,32 L30,32 Z",
}
OFFSETS = [(0, 0), (17, 11), (-6, 23)]
RULES = ["nonzero", "evenodd"]
BAND = 0.3

DEGENERATE = [
    ("shared-edge", ["M10,10 L30,10 L30,30 L10,30 Z", "M30,10 L50,10 L50,30 L30,30 Z"]),
    ("duplicate", ["M10,10 L40,10 L40,40 L10,40 Z", "M10,10 L40,10 L40,40 L10,40 Z"]),
    ("reversed-duplicate", ["M10,10 L40,10 L40,40 L10,40 Z", "M10,10 L10,40 L40,40 L40,10 Z"]),
    ("touching-vertex", ["M10,10 L30,10 L30,30 L10,30 Z", "M30,30 L50,30 L50,50 L30,50 Z"]),
    ("contained-shared-edge", ["M10,10 L50,10 L50,50 L10,50 Z", "M10,20 L30,20 L30,40 L10,40 Z"]),
    ("collinear-overlap", ["M10,10 L50,10 L50,30 L10,30 Z", "M20,30 L40,30 L40,50 L20,50 Z"]),
]


# operands whose filled region is EMPTY: union and difference ignore them, an intersection with one is empty
EMPTY_OPERANDS = ["", "M5,5", "M10,10 L10,10", "M10,10 L40,10", "M10,10 L10,40 Z", "M10,10 L40,40 L10,10 Z"]


def shift(d, off):
    cmds = R1.exploded(R1.parse(d))
    out = []
    for c, a in cmds:
        if c == "Z":
            out.append("Z")
        else:
            out.append(c + " ".join(f"{a[i] + off[0]:g},{a[i + 1] + off[1]:g}" for i in range(0, len(a), 2)))
    return " ".join(out)


def polys_of(d):
    subs = R1.drop_move_only(R1.interpret_string(d))
    fl = scene.flatten_subpaths(subs, BAND / 20)
    return [np.asarray(f["pts"], dtype=float) for f in fl if len(f["pts"]) >= 2]


def inside(pts, polys, rule):
    if not polys:
        return np.zeros(len(pts), dtype=bool), np.full(len(pts), np.inf)
    w = scene.winding(pts, polys)
    ins = (w != 0) if rule == "nonzero" else (w % 2 != 0)
    return ins, scene.edge_distance(pts, polys)


_PTS = None


def lattice(seed):
    global _PTS
    if _PTS is None:
        G = 30
        ph = (seed % 8) * 0.11
        xs = -12 + (np.arange(G) + 0.37 + ph) * 100 / G
        X, Y = np.meshgrid(xs, xs + 0.21)
        _PTS = np.stack([X.ravel(), Y.ravel()], axis=1)
    return _PTS


def cmds_of(d):
    from picosvg.svg_types import SVGPath

    return tuple(SVGPath(d=d).as_cmd_seq())


def run_op(api, op, ds, rules):
    """-> path string of the result, or raises"""
    from picosvg import svg_pathops
    from picosvg import svg_types as T
    from picosvg.svg_types import SVGPath

    if api == "pathops":
        seqs = [cmds_of(d) for d in ds]
        if op == "remove_overlaps":
            res = svg_pathops.remove_overlaps(seqs[0], rules[0])
        else:
            res = getattr(svg_pathops, op)(seqs, list(rules))
        return SVGPath.from_commands(res).d if res is not None else ""
    other = {"nonzero": "evenodd", "evenodd": "nonzero"}
    if api == "shapes":
        # the governing rule is clip_rule; fill_rule deliberately set to the opposite
        shapes = [SVGPath(d=d, clip_rule=r, fill_rule=other[r]) for d, r in zip(ds, rules)]
        res = getattr(T, op)(shapes)
        return SVGPath.from_commands(res).d
    if api == "shapes-explicit":
        shapes = [SVGPath(d=d, clip_rule=other[r], fill_rule=other[r]) for d, r in zip(ds, rules)]
        res = T.intersection(shapes, fill_rules=list(rules))
        return SVGPath.from_commands(res).d
    if api == "path":
        p = SVGPath(d=ds[0], fill_rule=rules[0], clip_rule=other[rules[0]])
        q = p.remove_overlaps()
        if q.fill_rule != "nonzero" or q.clip_rule != "nonzero":
            raise AssertionError(f"remove_overlaps left fill_rule={q.fill_rule} clip_rule={q.clip_rule}")
        if p.d != ds[0] or p.fill_rule != rules[0]:
            raise AssertionError("remove_overlaps(inplace=False) modified the receiver")
        return q.d
    raise ValueError(api)


def judge(api, op, ds, rules, seed, degenerate=False):
    pts = lattice(seed)
    try:
        rd = run_op(api, op, ds, rules)
    except AssertionError as e:
        return "bad", str(e), 0
    except Exception as e:  # noqa
        # an error instead of a path is allowed by the statement
        return "raised:" + type(e).__name__, None, 0
    ops_in = []
    dist = np.full(len(pts), np.inf)
    for d, r in zip(ds, rules):
        ins, dd = inside(pts, polys_of(d), r)
        ops_in.append(ins)
        dist = np.minimum(dist, dd)
    if op in ("union",):
        want = np.logical_or.reduce(ops_in)
    elif op == "intersection":
        want = np.logical_and.reduce(ops_in)
    elif op == "difference":
        want = ops_in[0].copy()
        for o in ops_in[1:]:
            want &= ~o
    else:
        want = ops_in[0]
    try:
        rp = polys_of(rd) if rd.strip() else []
    except R1.Reject as e:
        return "bad", f"result is not valid path data: {rd!r} ({e})", 0
    got_nz, d2 = inside(pts, rp, "nonzero")
    got_eo, _ = inside(pts, rp, "evenodd")
    dist = np.minimum(dist, d2)
    ok = dist > BAND
    n = int(ok.sum())
    bad = ok & (got_nz != want)
    if bad.any():
        p = pts[np.nonzero(bad)[0][0]]
        return "returned", f"point ({p[0]:.2f},{p[1]:.2f}) is {'inside' if got_nz[np.nonzero(bad)[0][0]] else 'outside'} the result but the set operation says otherwise; result {rd!r}", n
    bad = ok & (got_nz != got_eo)
    if bad.any():
        p = pts[np.nonzero(bad)[0][0]]
        return "returned", f"result interior depends on the fill rule at ({p[0]:.2f},{p[1]:.2f}); result {rd!r}", n
    nontrivial = bool((ok & want).sum() >= 5 and (ok & ~want).sum() >= 5)
    return "returned" if nontrivial else "returned-trivial", None, n


LAT = [(x, y) for x in (0, 7, 13, 20) for y in (0, 6, 11, 20)]


def evaluate_skiafail(case):
    """'When the underlying engine cannot compute an operation an error is raised instead of a wrong
    path being returned': enumerate every closed contour of two cubics with control points on a 4x4
    lattice, keep those on which Skia's own simplify() gives up, and require picosvg to raise (or to
    return the right region) on them."""
    import pathops

    outs = collections.Counter()
    nts = set()
    viols = []
    n = 0
    p0 = LAT[case["i0"]]
    for a in LAT[case["alo"] : case["ahi"]]:
        for b, p1, c, d in itertools.product(LAT, LAT[8:12], LAT, LAT):
            n += 1
            sk = pathops.Path(fillType=pathops.FillType.WINDING)
            sk.moveTo(*p0)
            sk.cubicTo(*a, *b, *p1)
            sk.cubicTo(*c, *d, *p0)
            sk.close()
            try:
                sk.simplify(fix_winding=True)
                continue
            except pathops.PathOpsError:
                pass
            dstr = f"M{p0[0]},{p0[1]} C{a[0]},{a[1]} {b[0]},{b[1]} {p1[0]},{p1[1]} C{c[0]},{c[1]} {d[0]},{d[1]} {p0[0]},{p0[1]} Z"
            variants = [dstr]
            # the same contour inside a covering square (either direction): regions of winding 2 / 0,
            # where a self-overlapping path handed back untouched is visibly not a simplified one
            for sq in ("M-5,-5 L25,-5 L25,25 L-5,25 Z", "M-5,-5 L-5,25 L25,25 L25,-5 Z"):
                sk2 = pathops.Path(fillType=pathops.FillType.WINDING)
                sk2.moveTo(*p0)
                sk2.cubicTo(*a, *b, *p1)
                sk2.cubicTo(*c, *d, *p0)
                sk2.close()
                q = [tuple(float(v) for v in t.split(",")) for t in sq.replace("M", "").replace("Z", "").replace("L", " ").split()]
                sk2.moveTo(*q[0])
                for pt in q[1:]:
                    sk2.lineTo(*pt)
                sk2.close()
                try:
                    sk2.simplify(fix_winding=True)
                except pathops.PathOpsError:
                    variants.append(dstr + " " + sq)
            # the failing contour as a *later* operand of a binary operation: if Skia's op() itself gives up there,
            # the wrapper must not hand back a path computed without that operand
            first_op = "M-2,-3 L22,-3 L22,9 L-2,9 Z"
            for opname, opc in (("union", pathops.PathOp.UNION), ("intersection", pathops.PathOp.INTERSECTION), ("difference", pathops.PathOp.DIFFERENCE)):
                a_ = pathops.Path(fillType=pathops.FillType.WINDING)
                a_.moveTo(-2, -3); a_.lineTo(22, -3); a_.lineTo(22, 9); a_.lineTo(-2, 9); a_.close()
                b_ = pathops.Path(fillType=pathops.FillType.WINDING)
                b_.moveTo(*p0); b_.cubicTo(*a, *b, *p1); b_.cubicTo(*c, *d, *p0); b_.close()
                try:
                    pathops.op(a_, b_, opc, fix_winding=True)
                    continue
                except pathops.PathOpsError:
                    pass
                o, why, np_ = judge("pathops", opname, [first_op, dstr], ["nonzero", "nonzero"], case["seed"], True)
                outs["skiafail-op/" + o] += 1
                nts.add(core.h64(dstr + opname))
                if why and len(viols) < 6:
                    viols.append({"sig": {"kind": "wrong-region-where-skia-fails", "api": "pathops", "op": opname}, "case": {"fam": "one", "api": "pathops", "op": opname, "ds": [first_op, dstr], "rules": ["nonzero", "nonzero"], "deg": True}, "detail": {"why": f"Skia's op() raises PathOpsError for ({first_op!r}, {dstr!r}); svg_pathops.{opname} returned a path instead: {why}"}})
            for dstr in variants:
              # (a one-operand union / intersection / difference is nothing but the final simplify: same requirement)
              for api, opn in (("pathops", "remove_overlaps"), ("path", "remove_overlaps"), ("pathops", "union"), ("pathops", "intersection"), ("pathops", "difference"), ("shapes", "union")):
                for rule in RULES:
                    o, why, np_ = judge(api, opn, [dstr], [rule], case["seed"], True)
                    outs["skiafail/" + o] += 1
                    if len(dstr) > 90:
                        outs["skiafail-in-square/" + o] += 1
                    nts.add(core.h64(dstr + api + opn + rule))
                    if why and len(viols) < 6:
                        viols.append({"sig": {"kind": "wrong-region-where-skia-fails", "api": api, "op": opn}, "case": {"fam": "one", "api": api, "op": opn, "ds": [dstr], "rules": [rule], "deg": True}, "detail": {"why": f"Skia's simplify() raises PathOpsError on {dstr!r}; {api}.{opn}({rule}) returned a path instead: {why}"}})
    outs["skiafail/scanned"] += n
    return {"n": n, "outs": outs, "nts": nts, "viol": viols}


def evaluate(case):
    if case.get("fam") == "skiafail":
        return evaluate_skiafail(case)
    outs = collections.Counter()
    nts = set()
    viols = []
    n = 0
    pts_total = 0
    sample = None
    for api, op, ds, rules, deg in case["items"]:
        n += 1
        o, why, np_ = judge(api, op, ds, rules, case["seed"], deg)
        outs[o] += 1
        pts_total += np_
        if o == "returned":
            nts.add(core.h64(repr((api, op, ds, rules))))
            if sample is None and len(ds) >= 2:
                sample = {"api": api, "op": op, "operands": ds, "rules": rules}
        if why and len(viols) < 8:
            viols.append({"sig": {"kind": "wrong-region" if o == "returned" else "bad-result", "api": api, "op": op, "degenerate": bool(deg), "arity": len(ds)}, "case": {"fam": "one", "api": api, "op": op, "ds": ds, "rules": rules, "deg": deg}, "detail": {"why": f"{api}.{op}{tuple(zip(ds, rules))}: {why}"}})
    return {"n": n, "outs": outs, "nts": nts, "viol": viols, "sample": sample, "cnt": {"compared_points": pts_total}}


def operands(tier):
    out = []
    for name, d in LIB.items():
        for k, off in enumerate(OFFSETS):
            out.append((name, k, shift(d, off)))
    return out


def all_items(tier, seed):
    ops_ = operands(tier)
    # single operand
    for name, k, d in ops_:
        for r in RULES:
            yield ("pathops", "remove_overlaps", [d], [r], False)
            yield ("path", "remove_overlaps", [d], [r], False)
            for op in ("union", "intersection", "difference"):
                yield ("pathops", op, [d], [r], False)
            yield ("shapes", "union", [d], [r], False)
    # pairs
    first = [o for o in ops_ if o[1] == 0] if tier == "quick" else ops_
    for (n1, k1, d1), (n2, k2, d2) in itertools.product(first, ops_):
        if n1 == n2 and k1 == k2:
            continue
        for r1, r2 in itertools.product(RULES, repeat=2):
            for op in ("union", "intersection", "difference"):
                yield ("pathops", op, [d1, d2], [r1, r2], False)
            if k2 == 1 or tier == "thorough":
                for op in ("union", "intersection", "difference"):
                    yield ("shapes", op, [d1, d2], [r1, r2], False)
                yield ("shapes-explicit", "intersection", [d1, d2], [r1, r2], False)
    # triples / quadruples
    sub = ["square", "bowtie", "pentagram", "nested_same", "blob"]
    trip_lib = [(n, k, d) for n, k, d in ops_ if (n in sub if tier == "quick" else True)]
    if tier == "quick":
        trips = itertools.product([o for o in trip_lib if o[1] == 0], [o for o in trip_lib if o[1] == 1], [o for o in trip_lib if o[1] == 2])
    else:
        names = list(LIB)
        trips = itertools.product([o for o in ops_ if o[1] == 0], [o for o in ops_ if o[1] == 1], [o for o in ops_ if o[1] == 2])
    for a, b, c in trips:
        for rs in itertools.product(RULES, repeat=3) if (tier == "thorough" or a[0] != b[0]) else [("nonzero", "evenodd", "nonzero")]:
            for op in ("union", "intersection", "difference"):
                yield ("pathops", op, [a[2], b[2], c[2]], list(rs), False)
    if tier == "quick":
        ql = [shift(LIB[n_], o) for n_, o in zip(sub, [(0, 0), (17, 11), (-6, 23), (9, -7), (3, 3)])]
        for combo in ((0, 1, 2, 3), (3, 2, 1, 0), (1, 3, 0, 4), (0, 4, 2, 1, 3)):
            for op in ("union", "intersection", "difference"):
                yield ("pathops", op, [ql[i] for i in combo], ["nonzero", "evenodd", "nonzero", "nonzero", "evenodd"][: len(combo)], False)
                yield ("shapes", op, [ql[i] for i in combo], ["nonzero"] * len(combo), False)
    if tier == "thorough":
        quad_lib = [shift(LIB[n], o) for n, o in zip(sub, [(0, 0), (17, 11), (-6, 23), (9, -7), (3, 3)])]
        for combo in itertools.permutations(range(5), 4):
            for rs in itertools.product(RULES, repeat=4):
                for op in ("union", "intersection", "difference"):
                    yield ("pathops", op, [quad_lib[i] for i in combo], list(rs), False)
    # empty list
    # empty operands in every position of 2- and 3-operand calls
    full = [LIB["square"], shift(LIB["pentagram"], (17, 11))]
    for e in EMPTY_OPERANDS:
        for a in full:
            for rs in (("nonzero", "nonzero"), ("evenodd", "nonzero"), ("nonzero", "evenodd")):
                for op in ("union", "intersection", "difference"):
                    yield ("pathops", op, [a, e], list(rs), True)
                    yield ("pathops", op, [e, a], list(rs), True)
                    yield ("shapes", op, [a, e], list(rs), True)
            for op in ("union", "intersection", "difference"):
                yield ("pathops", op, [full[0], e, full[1]], ["nonzero"] * 3, True)
                yield ("pathops", op, [full[0], full[1], e], ["nonzero"] * 3, True)
    # degenerate family
    for label, ds in DEGENERATE:
        for rs in itertools.product(RULES, repeat=2):
            for op in ("union", "intersection", "difference"):
                yield ("pathops", op, ds, list(rs), True)
                yield ("pathops", op, ds[::-1], list(rs), True)
        for r in RULES:
            yield ("pathops", "remove_overlaps", [ds[0] + " " + ds[1]], [r], True)


def cases(tier, seed):
    for i0 in range(1 if tier == "quick" else 4):
        for alo in range(0, 16, 2):
            yield {"fam": "skiafail", "i0": i0, "alo": alo, "ahi": alo + 2, "seed": seed}
    batch = []
    for it in all_items(tier, seed):
        batch.append(list(it))
        if len(batch) >= 40:
            yield {"items": batch, "seed": seed}
            batch = []
    if batch:
        yield {"items": batch, "seed": seed}


def run(run):
    from picosvg import svg_pathops

    run.rule = (
        f"E2 + winding-number oracle: {len(LIB)} outlines (square, triangle, bow-tie, pentagram, nested squares same/opposite direction, cubic blob, quadratic lens, open polyline, open curve, "
        "two disjoint contours, tiny square) at 3 offsets; operand tuples of length 1-2 full and 3 over a sub-library (quick) / 1-3 full and 4 over 5 outlines (thorough) x fill rule per operand "
        "x {union, intersection, difference, remove_overlaps} via svg_pathops.*, the shape-level wrappers (clip_rule governs, fill_rule set to the opposite; explicit fill_rules) and "
        "SVGPath.remove_overlaps; degenerate family (shared edge, duplicate, reversed duplicate, touching vertex, contained shared edge, collinear overlap); operands with an empty region (lone moveto, zero-length, open line, zero-width, back-and-forth) in every position of 2- and 3-operand calls. Oracle: at every lattice point "
        "farther than 0.3 from any operand/result edge: inside(result, nonzero) == set combination of inside(operand_i, rule_i) and inside(result, evenodd) == inside(result, nonzero). "
        "Non-trivial = >= 5 compared points inside and >= 5 outside the expected region (distinct operand tuples)."
    )
    run.assumptions = ["open contours are implicitly closed (SVG fill semantics)", "multi-operand difference is ((A - B) - C), union/intersection are n-ary"]
    # empty operand list
    for op in ("union", "intersection", "difference"):
        try:
            res = getattr(svg_pathops, op)([], [])
            res = list(res) if res is not None else []
            if res:
                run.add_violation({"kind": "empty-list"}, {"op": op}, {"why": f"{op}([]) returned {res!r}"})
        except Exception as e:  # noqa
            pass
    run.floor_nt = 500
    run.run_cases(MOD, cases(run.tier, run.seed), chunk=1)
    run.cov["compared_points"] = int(run.cnt.get("compared_points", 0))


def replay(case):
    o, why, n = judge(case["api"], case["op"], case["ds"], case["rules"], 0, case.get("deg"))
    if why:
        return [{"sig": {"kind": "wrong-region"}, "case": case, "detail": {"why": why}}]
    return []
