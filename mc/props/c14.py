"""C14 - content that renderers ignore never influences the converted document.

E2, deviation-bounded and metamorphic: base documents D x all single noise
insertions at every tree position (quick) and all pairs of insertions
(thorough).  Oracle: canon(convert(N(D))) == canon(convert(D)).
"""
import collections
import copy
import glob
import itertools
import os
import re

from mc import core
from mc.gen import docs as G
from mc.ref import picogrammar as R4

ID = "C14"
LEVEL = "exploration"
MOD = "mc.props.c14"

SVGNS = "http://www.w3.org/2000/svg"
FOREIGN = "http://example.org/noise"

BASE_KINDS = [
    ["rect"],
    ["rect", "circle"],
    ["gop:rect+circle"],
    ["gop:rect+invisible"],
    ["g:rect+stroked"],
    ["gxf:rect+lingrad"],
    ["gopxf:circle+rect"],
    ["gop1:rect+circle"],
    ["gfill:rect+circle"],
    ["use"],
    ["usetwice", "rect"],
    ["clipped"],
    ["gclip:rect+stroked"],
    ["gclip:circle+lingrad"],
    ["lingrad", "radgrad"],
    ["hrefgrad", "xformed"],
    ["nestedsvg"],
    ["nestedsvg", "gop:rect+circle"],
    ["stroked", "fillstroke"],
    ["evenodd", "styled"],
    ["patharc", "pathrel"],
    ["symbolanon", "polygon", "polyline"],
    ["text"],
    ["gop:rect+circle", "gop:stroked+lingrad"],
    # documents that already contain ignorable content (so one more insertion interacts with it)
    ["rect", "titledesc"],
    ["titledesc", "gop:rect+circle", "pi", "titledesc"],
    ["pi", "lingrad", "comment", "foreignel", "titledesc"],
]

OPTION_BASES = {"X:gradids", "K:hrefgrad/xformed", "K:clipped", "K:gclip:circle+lingrad", "K:lingrad/radgrad", "K:gop:rect+circle", "K:text", "K:use", "K:symbolanon/polygon/polyline", "K:pi/lingrad/comment/foreignel/titledesc"}
G_PARENTS = {"svg", "g", "defs", "symbol"}
# foreign-namespace attributes whose *local* name is an SVG attribute the conversion reads
FIELD_ATTRS = {"fill": "lime", "opacity": "0.1", "transform": "translate(40 40)", "display": "none", "d": "M0,0 L90,0 L90,90 Z", "cx": "1", "width": "1", "id": "dup", "style": "fill:pink"}
TREE_NOISE = {"comment", "pi", "ws", "pi-before-root"}  # what SVG.fromstring's parser would have discarded while reading
NOISE = ["comment", "pi", "title", "desc", "metadata", "foreignel", "symbol", "ws", "symbol-use", "symbol-style", "symbol-svg", "title-prefixed"]


_ST = '<stop offset="0" stop-color="red"/><stop offset="1" stop-color="blue"/>'
# authored ids that look like generated ones (gradient copies are named <id>_<n>, viewport clips nested-svg-viewport-<n>)
EXTRA_BASES = [
    (
        "X:gradids",
        f'<svg {G.NS} viewBox="0 0 100 100"><defs><linearGradient id="a" x2="1" y2="1">{_ST}</linearGradient><linearGradient id="a_0" x1="1" x2="0">{_ST}</linearGradient></defs>'
        '<rect x="5" y="5" width="30" height="30" fill="url(#a)" transform="translate(10 5)"/><rect x="50" y="50" width="30" height="30" fill="url(#a_0)"/></svg>',
    ),
    (
        "X:gradids-rev",
        f'<svg {G.NS} viewBox="0 0 100 100"><defs><linearGradient id="a_0" x1="1" x2="0">{_ST}</linearGradient><linearGradient id="a_1" y2="1" x2="0">{_ST}</linearGradient><linearGradient id="a" x2="1" y2="1">{_ST}</linearGradient></defs>'
        '<rect x="50" y="50" width="30" height="30" fill="url(#a_0)"/><g transform="scale(.9)"><rect x="5" y="5" width="30" height="30" fill="url(#a)"/><circle cx="70" cy="20" r="12" fill="url(#a_1)"/></g></svg>',
    ),
    (
        "X:clipids",
        f'<svg {G.NS} viewBox="0 0 100 100"><defs><clipPath id="nested-svg-viewport-0"><circle cx="30" cy="30" r="25"/></clipPath></defs>'
        '<rect x="5" y="5" width="60" height="60" fill="teal" clip-path="url(#nested-svg-viewport-0)"/><svg x="40" y="40" width="50" height="50" viewBox="0 0 10 10"><rect x="-5" y="2" width="30" height="6" fill="red"/></svg></svg>',
    ),
]


def template_bases():
    """gradients that inherit from templates (translated templates, partial overrides, chains, templates after their users)"""
    from mc.props import c06

    out = []
    from mc.gen import big

    out.append(("X:wrapper26", big.big_wrapper(26)[1].replace("<g>", "", 1).replace("</g>", "", 1)))
    for name, k in (
        ("X:tpl-partial", ("linear", "numbers", "userSpaceOnUse", "translate", "pad", "partial", "none", "rect", "none")),
        ("X:tpl-partial-after", ("radial", "numbers", "userSpaceOnUse", "scaletr", "pad", "partial-after", "none", "rect", "translate")),
        ("X:tpl-chain3own", ("linear", "numbers", "objectBoundingBox", "matrix", "reflect", "chain3own", "none", "rect", "none")),
        ("X:tpl-chain-rev", ("linear", "numbers", "userSpaceOnUse", "translate", "pad", "chain-rev", "none", "rect", "groupmatrix")),
    ):
        out.append((name, c06.document(*k)))
    return out


def base_docs(tier):
    docs = [("K:" + "/".join(k), G.document(k)) for k in BASE_KINDS] + list(EXTRA_BASES) + template_bases()
    files = sorted(glob.glob(os.environ.get("VERIF_REPO", "/repo") + "/tests/*.svg"))
    repo = []
    for f in files:
        n = os.path.basename(f)
        if n.endswith("-nano.svg") or "-clipped" in n or n.startswith("bad-"):
            continue
        try:
            s = open(f).read()
        except Exception:
            continue
        repo.append((len(s), "F:" + n, s))
    repo.sort()
    limit = 40 if tier == "quick" else len(repo)
    for sz, n, s in repo[:limit]:
        if sz < (6000 if tier == "quick" else 40000):
            docs.append((n, s))
    return docs


def _parse(doc):
    from lxml import etree

    s = doc
    if "xlink" in s and "xmlns:xlink" not in s:
        s = s.replace("<svg ", '<svg xmlns:xlink="http://www.w3.org/1999/xlink" ', 1)
    return etree.fromstring(s.encode("utf-8"))


def _local(el):
    from lxml import etree

    if not isinstance(el.tag, str):
        return None
    return etree.QName(el).localname if el.tag.startswith("{") else el.tag


def positions(root):
    """all insertion ops for one document: list of (kind, elem_index, child_index, span)"""
    from lxml import etree

    els = [e for e in root.iter() if isinstance(e.tag, str)]
    ops = []
    for ei, el in enumerate(els):
        ns = etree.QName(el).namespace if el.tag.startswith("{") else None
        if ns != SVGNS:
            continue
        loc = _local(el)
        if loc in ("style", "text", "tspan", "textPath", "foreignObject", "title", "desc", "metadata", "script"):
            continue
        nchild = len(el)
        for ci in range(nchild + 1):
            for kind in NOISE:
                if kind.startswith("symbol") and loc not in G_PARENTS:
                    continue
                if kind in ("symbol-use", "symbol-style", "symbol-svg", "title-prefixed") and ci not in (0, nchild):
                    continue  # the hostile id-less symbols: first and last position of every parent
                ops.append((kind, ei, ci, 0))
        ops.append(("foreignattr-root", ei, 0, 0))
        ops.append(("foreignattr-self", ei, 0, 0))
        for fld in FIELD_ATTRS:
            ops.append(("foreignattr-field:" + fld, ei, 0, 0))
        if loc in G_PARENTS - {"defs"} or loc == "defs":
            # wrapper g around one child / a run of children
            kids = [c for c in el if isinstance(c.tag, str)]
            if len(kids) >= 8:
                ops.append(("wrap", ei, 0, len(kids) - 1))
                ops.append(("wrap", ei, 0, len(kids)))
                ops.append(("wrap", ei, 1, len(kids) - 1))
            for ci in range(len(kids)):
                for span in (1, 2, 3):
                    if ci + span <= len(kids):
                        if loc == "defs" and any(_local(k) in ("clipPath",) for k in kids[ci : ci + span]) and False:
                            continue
                        ops.append(("wrap", ei, ci, span))
    ops.append(("xmldecl", 0, 0, 0))
    ops.append(("xmldecl-sameline", 0, 0, 0))
    ops.append(("pi-before-root", 0, 0, 0))
    return ops


def apply_ops(doc, ops):
    """-> noisy document string"""
    from lxml import etree

    root = _parse(doc)
    els = [e for e in root.iter() if isinstance(e.tag, str)]
    prefix = ""
    # apply from the back so element indices / child indices stay valid
    order = sorted(range(len(ops)), key=lambda i: (ops[i][1], ops[i][2]), reverse=True)
    for k, i in enumerate(order):
        kind, ei, ci, span = ops[i]
        el = els[ei]
        tag = lambda n: "{%s}%s" % (SVGNS, n)
        if kind == "comment":
            el.insert(ci, etree.Comment(" noise "))
        elif kind == "pi":
            el.insert(ci, etree.ProcessingInstruction("noise", "x='1'"))
        elif kind in ("title", "desc"):
            n = etree.Element(tag(kind))
            n.text = "noise text"
            if kind == "desc":
                etree.SubElement(n, tag("title")).text = "t in desc"
            el.insert(ci, n)
        elif kind == "metadata":
            n = etree.Element(tag("metadata"))
            r = etree.SubElement(n, "{http://www.w3.org/1999/02/22-rdf-syntax-ns#}RDF")
            etree.SubElement(r, "{http://purl.org/dc/elements/1.1/}title").text = "x"
            etree.SubElement(n, tag("title")).text = "nested title"
            etree.SubElement(n, tag("desc")).text = "nested desc"
            el.insert(ci, n)
        elif kind == "foreignel":
            n = etree.Element("{%s}junk" % FOREIGN, nsmap={"nz": FOREIGN})
            n.set("width", "10")
            c = etree.SubElement(n, "{%s}inner" % FOREIGN)
            etree.SubElement(c, tag("rect")).set("width", "5")
            el.insert(ci, n)
        elif kind == "symbol":
            n = etree.Element(tag("symbol"))
            r = etree.SubElement(n, tag("rect"))
            r.set("width", "7")
            r.set("height", "7")
            el.insert(ci, n)
        elif kind == "title-prefixed":
            # the SVG namespace under a prefix that is declared on the noise element itself: still a title / desc / metadata
            # (lxml would serialise it under the default namespace again: a placeholder is replaced in the text below)
            n = etree.Element(tag("title"))
            n.text = "PFXTITLE"
            el.insert(ci, n)
        elif kind in ("symbol-use", "symbol-style", "symbol-svg"):
            # id-less symbols are never instantiated: whatever they contain is ignorable, however broken
            n = etree.Element(tag("symbol"))
            if kind == "symbol-use":
                u = etree.SubElement(n, tag("use"))
                u.set("{http://www.w3.org/1999/xlink}href", "#nowhere-to-be-found")
                etree.SubElement(n, tag("use")).set("{http://www.w3.org/1999/xlink}href", "other.svg#ext")
            elif kind == "symbol-style":
                r = etree.SubElement(n, tag("rect"))
                r.set("width", "7")
                r.set("height", "oops")
                r.set("style", "fill;;:x:y")
                r.set("transform", "bogus(1)")
            else:
                v = etree.SubElement(n, tag("svg"))
                v.set("overflow", "scroll")
                v.set("viewBox", "0 0 0 0")
                etree.SubElement(v, tag("rect")).set("width", "5")
            el.insert(ci, n)
        elif kind == "ws":
            if ci == 0:
                el.text = (el.text or "") + "\n   "
            else:
                ch = el[ci - 1]
                ch.tail = (ch.tail or "") + "\n  \t"
        elif kind.startswith("foreignattr-field:"):
            fld = kind.split(":", 1)[1]
            el.set("{%s}%s" % (FOREIGN, fld), FIELD_ATTRS[fld])
        elif kind == "foreignattr-self":
            el.set("{%s}label" % FOREIGN + str(k), "v")
        elif kind == "foreignattr-root":
            el.set("{http://www.inkscape.org/namespaces/inkscape}label", "v")
        elif kind == "wrap":
            kids = [c for c in el if isinstance(c.tag, str)][ci : ci + span]
            g = etree.Element(tag("g"))
            el.insert(el.index(kids[0]), g)
            for c in kids:
                g.append(c)
        elif kind == "xmldecl-sameline":
            prefix = '<?xml version="1.0" encoding="UTF-8"?>' + prefix
        elif kind == "xmldecl":
            prefix = '<?xml version="1.0" encoding="UTF-8" standalone="no"?>\n' + prefix
        elif kind == "pi-before-root":
            prefix = prefix + "<?xml-stylesheet href='x.css'?>\n<!-- c -->\n"
    out = etree.tostring(root).decode("utf-8")
    out = out.replace("<title>PFXTITLE</title>", '<s:title xmlns:s="http://www.w3.org/2000/svg">t</s:title><s:metadata xmlns:s="http://www.w3.org/2000/svg"><s:desc>d</s:desc></s:metadata>')
    if any(o[0] == "foreignattr-root" for o in ops) and "xmlns:inkscape" not in out.split(">", 1)[0]:
        # declare the namespace on the root, as editors do
        cleaned = etree.fromstring(out.encode())
        etree.cleanup_namespaces(cleaned, top_nsmap={"inkscape": "http://www.inkscape.org/namespaces/inkscape"})
        out = etree.tostring(cleaned).decode("utf-8")
    return prefix + out


# ---------------------------------------------------------------------------
# canonical form of an output


_URL = re.compile(r"url\(#([^)]+)\)")
_NUMRE = re.compile(r"[-+]?(?:\d+\.?\d*|\.\d+)(?:[eE][-+]?\d+)?")


def canon(out):
    import xml.etree.ElementTree as ET

    root = ET.fromstring(out)
    tagl = lambda e: R4.split(e.tag)[1]
    nums = []
    order = []
    for el in root.iter():
        if tagl(el) in ("linearGradient", "radialGradient", "stop", "defs"):
            continue
        for a, v in el.attrib.items():
            for m in _URL.finditer(v):
                if m.group(1) not in order:
                    order.append(m.group(1))
    ren = {old: f"G{k}" for k, old in enumerate(order)}
    for el in root.iter():
        for a, v in list(el.attrib.items()):
            if "url(#" in v:
                el.set(a, _URL.sub(lambda m: f"url(#{ren.get(m.group(1), m.group(1))})", v))
        if tagl(el) in ("linearGradient", "radialGradient"):
            if el.get("id") in ren:
                el.set("id", ren[el.get("id")])
    for d in root.iter("{%s}defs" % SVGNS):
        kids = sorted(list(d), key=lambda e: (e.get("id") or "", ET.tostring(e)))
        for k in list(d):
            d.remove(k)
        d.extend(kids)
    # gradient parameters are compared numerically (see same_canon), in the sorted order: the 6-decimal rounding of
    # the rewritten matrix is amplified by large coordinates when the translation is folded into cx/cy/x1/...
    for el in root.iter():
        if tagl(el) in ("linearGradient", "radialGradient"):
            for a in sorted(el.attrib):
                v = el.get(a)
                if a in R4.GRAD_NUM or a == "gradientTransform":
                    nums.extend(float(m) for m in _NUMRE.findall(v))
                    el.set(a, _NUMRE.sub("#", v))

    def ser(e):
        attrs = " ".join(f'{k}="{v}"' for k, v in sorted(e.attrib.items()))
        txt = (e.text or "").strip()
        return f"<{e.tag} {attrs}>{txt}" + "".join(ser(c) for c in e) + "</>"

    return ser(root), nums


def same_canon(a, b):
    if a is None or b is None:
        return a is b
    if a[0] != b[0] or len(a[1]) != len(b[1]):
        return False
    return all(abs(x - y) <= 2e-5 * max(1.0, abs(x), abs(y)) for x, y in zip(a[1], b[1]))


def convert(doc, opts=None):
    from picosvg.svg import SVG

    try:
        return "returned", SVG.fromstring(doc).topicosvg(**(opts or {})).tostring()
    except Exception as e:  # noqa
        return "raised:" + type(e).__name__, f"{type(e).__name__}: {e}"


def convert_tree(doc, opts=None):
    """second way in: the caller parses the text with lxml's defaults (comments, PIs and blank text KEPT) and hands the
    tree to the constructor"""
    from lxml import etree
    from picosvg.svg import SVG

    try:
        tree = etree.fromstring(doc.encode("utf-8"))
    except Exception:
        return "unparsed", ""
    try:
        return "returned", SVG(tree).topicosvg(**(opts or {})).tostring()
    except Exception as e:  # noqa
        return "raised:" + type(e).__name__, f"{type(e).__name__}: {e}"


_BASE_CACHE = {}


def base_result(name, doc, opts=None):
    key = (name, repr(opts))
    if key not in _BASE_CACHE:
        o, out = convert(doc, opts)
        _BASE_CACHE[key] = (o, canon(out) if o == "returned" else None, out)
    return _BASE_CACHE[key]


def judge(name, doc, ops, opts=None):
    bo, bc, bout = base_result(name, doc, opts)
    noisy = apply_ops(doc, ops)
    o, out = convert(noisy, opts)
    if o != bo:
        return o, f"clean document: {bo} ({'' if bo == 'returned' else bout[:120]}); with noise {ops}: {o} ({out[:160] if o != 'returned' else ''})", noisy, out
    if o == "returned":
        c = canon(out)
        if not same_canon(c, bc):
            return o, f"converted document changes with noise {ops}", noisy, out
    if any(op[0] in TREE_NOISE for op in ops):
        o2, out2 = convert_tree(noisy, opts)
        if o2 != "unparsed":
            if o2 != bo:
                return o2, f"clean document: {bo}; tree parsed by the caller with noise {ops}: {o2} ({out2[:160] if o2 != 'returned' else ''})", noisy, out2
            if o2 == "returned":
                if "<!--" in out2 or "<?" in out2:
                    return o2, f"comment / processing instruction survives the conversion of a caller-parsed tree with noise {ops}", noisy, out2
                if not same_canon(canon(out2), bc):
                    return o2, f"converted document changes with noise {ops} (tree parsed by the caller)", noisy, out2
    return o, None, noisy, out


def evaluate(case):
    name, doc = case["name"], case["doc"]
    root = _parse(doc)
    ops = positions(root)
    outs = collections.Counter()
    nts = set()
    viols = []
    n = 0
    sample = None
    if case["mode"] == "single":
        todo = [[op] for op in ops[case["lo"] : case["hi"]]]
    else:
        a = ops[case["i"]]
        decl = ("xmldecl", "xmldecl-sameline")
        todo = [[a, b] for b in ops[case["i"] + 1 :] if not (a[0] == "wrap" and b[0] == "wrap" and a[1] == b[1]) and not (a[0] in decl and b[0] in decl)]
    for oplist in todo:
        n += 1
        try:
            o, why, noisy, out = judge(name, doc, [tuple(x) for x in oplist], case.get("opts"))
        except Exception as e:  # harness problem building the noisy doc
            outs["harness-skip:" + type(e).__name__] += 1
            continue
        outs[o] += 1
        if o == "returned":
            nts.add(core.h64(noisy))
            if sample is None and len(noisy) < 900:
                sample = {"base": name, "ops": oplist, "noisy": noisy}
        if why and len(viols) < 6:
            viols.append(
                {
                    "sig": {"kind": "noise-changes-output", "noise": "+".join(sorted({x[0] for x in oplist})), "base": name, "options": ",".join(sorted(case.get("opts") or {}))},
                    "case": {"fam": "one", "name": name, "doc": doc, "ops": [list(x) for x in oplist], "opts": case.get("opts")},
                    "detail": {"why": why, "noisy": noisy[:2500], "output": out[:2500], "clean_output": base_result(name, doc, case.get("opts"))[2][:2500]},
                }
            )
        elif why:
            outs["more-violations"] += 1
    return {"n": n, "outs": outs, "nts": nts, "viol": viols, "sample": sample}


def cases(tier, seed):
    for name, doc in base_docs(tier):
        try:
            nops = len(positions(_parse(doc)))
        except Exception:
            continue
        step = 40
        for lo in range(0, nops, step):
            yield {"mode": "single", "name": name, "doc": doc, "lo": lo, "hi": min(nops, lo + step)}
            # the options are part of the conversion: ignorable content must stay ignorable under them too
            if name in OPTION_BASES or (tier == "thorough" and name.startswith("K:")):
                yield {"mode": "single", "name": name, "doc": doc, "lo": lo, "hi": min(nops, lo + step), "opts": {"drop_unsupported": True}}
                if "text" in name:
                    yield {"mode": "single", "name": name, "doc": doc, "lo": lo, "hi": min(nops, lo + step), "opts": {"allow_text": True}}
        if tier == "thorough" and name.startswith("K:"):
            for i in range(nops):
                yield {"mode": "pair", "name": name, "doc": doc, "i": i}


def run(run):
    run.rule = (
        f"E2 deviation-bounded: {len(BASE_KINDS)} generated base documents + repository test inputs x noise kinds "
        "{comment, PI, title, desc, metadata(with RDF), foreign-namespace element with children, id-less symbol with content (plain; with dangling / external use; with unparsable style, transform and numbers; with a nested svg overflow=scroll), whitespace, "
        "foreign-namespace attribute (ns declared on root / on the element; also with local names that equal SVG attributes: fill, opacity, transform, display, d, cx, width, id, style), attribute-less wrapper g around 1-3 siblings, XML declaration, PI+comment before root}: "
        "4 template-gradient bases from C06 (partial override, template after its user, chains), 3 hand-written bases whose authored ids look like generated ones (a / a_0 / a_1 gradients, nested-svg-viewport-0 clipPath); for comment / PI / whitespace noise additionally the caller-parsed-tree entry SVG(lxml tree) (comments must not survive); "
        "all single insertions at every tree position (quick; a subset of bases additionally with drop_unsupported=True / allow_text=True), all pairs on the generated set (thorough). Oracle: canonical form (gradient ids relabelled "
        "by first use, defs sorted, gradient parameters rounded to 5 places) of convert(N(D)) equals that of convert(D); same exception type counts as equal. "
        "Non-trivial = distinct noisy documents whose conversion returned."
    )
    run.assumptions = ["unused foreign xmlns declarations are not part of the compared form (attributes and elements only)"]
    run.floor_nt = 300
    run.run_cases(MOD, cases(run.tier, run.seed), chunk=1)


def replay(case):
    o, why, noisy, out = judge(case["name"], case["doc"], [tuple(x) for x in case["ops"]], case.get("opts"))
    if why:
        return [{"sig": {"kind": "noise-changes-output"}, "case": case, "detail": {"why": why, "noisy": noisy[:2500], "output": out[:2500]}}]
    return []
