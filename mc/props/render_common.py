"""Shared evaluation for the rendering properties (C02-C06, C19): convert a
source document with picosvg, render source and output with the reference
renderer R3 at the same finite point set, compare paint stacks and composites."""
from mc.ref import picogrammar as R4
from mc.ref import scene


def convert(doc, **kw):
    from picosvg.svg import SVG

    try:
        return "returned", SVG.fromstring(doc).topicosvg(**kw).tostring()
    except Exception as e:  # noqa
        return "raised:" + type(e).__name__, f"{type(e).__name__}: {e}"


def judge(doc, tier, seed, min_inside=30, min_outside=30, structural=True, G=None, alpha_tol=2e-3, must_convert=True, compare_kw=None):
    """-> record pieces: (outcome, why, kind, nontrivial, stats, out)"""
    o, out = convert(doc)
    if o != "returned":
        if must_convert:
            return o, f"conversion of a supported document failed: {out}", "raised", False, {}, out
        return o, None, None, False, {}, out
    G = G or (24 if tier == "quick" else 40)
    try:
        r = scene.compare(doc, out, G=G, phase=seed % 8, alpha_tol=alpha_tol, **(compare_kw or {}))
    except scene.Unsupported as e:
        return "oracle-unsupported", f"reference renderer cannot read the OUTPUT ({e}) - not a picosvg?", "bad-output", False, {}, out
    st = r["stats"]
    nontrivial = st.get("inside", 0) >= min_inside and st.get("outside", 0) >= min_outside
    if not r["ok"]:
        return o, r["why"], "render", nontrivial, st, out
    if structural:
        bad = R4.validate(out)
        if bad:
            return o, "output violates the picosvg grammar: " + "; ".join(bad)[:300], "grammar", nontrivial, st, out
    return o, None, None, nontrivial, st, out


def record(doc, tier, seed, sig_extra=None, case_extra=None, **kw):
    o, why, kind, nt, st, out = judge(doc, tier, seed, **kw)
    rec = {"out": o, "nt": doc if nt else None, "viol": [], "cnt": {"compared_points": st.get("compared", 0), "patterns": st.get("patterns", 0)}}
    if nt and st.get("patterns", 0) >= 3:
        rec["sample"] = {"source": doc, "compared_points": st.get("compared"), "coverage_patterns": st.get("patterns")}
    if why:
        sig = {"kind": kind}
        sig.update(sig_extra or {})
        case = {"fam": "doc", "doc": doc}
        case.update(case_extra or {})
        rec["viol"].append({"sig": sig, "case": case, "detail": {"why": why, "output": out[:3000], "stats": st}})
    return rec
