"""C19 - clipping to the viewBox and bounding boxes are geometrically exact.

E2 + R3: pico documents (obtained by converting generated sources) with shapes
at each position of a 5x5 placement grid relative to the viewBox (inside,
outside, straddling every side and corner) x 3 viewBoxes, documents of 1-2 (3)
shapes with and without a kept translucent group; clip_to_viewbox in both
modes and through the CLI flag.  Oracle: the clipped document renders like the
original wrapped in a clip to the viewBox rectangle.  Bounding boxes: exact
extrema boxes of R1 for a library of shapes and paths.
"""
import collections
import itertools
import os
import subprocess
import sys
import tempfile

from mc import core
from mc.gen.docs import NS
from mc.ref import pathdata as R1
from mc.ref import picogrammar as R4
from mc.ref import scene

ID = "C19"
LEVEL = "exploration"
MOD = "mc.props.c19"

VIEWBOXES = [(0, 0, 100, 100), (-20, 30, 60, 40), (10.5, 10.5, 33.3, 77.7), (-20, -15, 60, 40)]
# unit shapes in a 1x1 box centred on the origin; scaled to 0.36 x viewBox size
UNIT = {
    "rect": '<rect x="-.5" y="-.4" width="1" height=".8" fill="red"/>',
    "tri": '<polygon points="-.5,.45 .5,.3 -.1,-.5" fill="blue"/>',
    "circle": '<circle cx="0" cy="0" r=".5" fill="green"/>',
    "ring": '<path fill-rule="evenodd" d="M-.5,-.5 H.5 V.5 H-.5 Z M-.25,-.25 H.25 V.25 H-.25 Z" fill="purple"/>',
    "cubic": '<path d="M-.5,.3 C-.4,-1.1 .4,-1.1 .5,.3 C.2,.6 -.2,.6 -.5,.3 Z" fill="orange"/>',
    "group": '<g opacity=".5"><rect x="-.5" y="-.5" width=".7" height=".7" fill="teal"/><circle cx=".15" cy=".15" r=".35" fill="maroon"/></g>',
    "grad": '<rect x="-.5" y="-.35" width="1" height=".7" fill="url(#lg)"/>',
    # shapes whose BOX can overlap the viewBox while their geometry misses it: a frame around everything (at the centre),
    # an L hugging a corner from outside (at 1,1), a diagonal band past a corner (at 0,0)
    "frame": '<path fill-rule="evenodd" d="M-2.5,-2.5 H2.5 V2.5 H-2.5 Z M-1.6,-1.6 H1.6 V1.6 H-1.6 Z" fill="brown"/>',
    "cornerL": '<path d="M.05,-1 H.5 V.5 H-1 V.05 H.05 Z" fill="navy"/>',
    "diag": '<path d="M-.8,.6 L.6,-.8 L.5,-.9 L-.9,.5 Z" fill="olive"/>',
}
GRAD_DEF = (
    '<linearGradient id="lg" x1="0" y1="0" x2="1" y2="1"><stop offset="0" stop-color="red"/><stop offset="1" stop-color="blue"/></linearGradient>'
    '<radialGradient id="rg" cx=".4" cy=".5" r=".6"><stop offset="0" stop-color="yellow"/><stop offset="1" stop-color="green"/></radialGradient>'
    '<linearGradient id="ug" gradientUnits="userSpaceOnUse" x1="-10" y1="20" x2="70" y2="60"><stop offset="0" stop-color="red"/><stop offset=".5" stop-color="lime"/><stop offset="1" stop-color="blue"/></linearGradient>'
)
GRID = [-0.42, 0.0, 0.5, 1.0, 1.42]  # centre position as a fraction of the viewBox size


# shapes written in absolute coordinates (no transform), so that the converted document keeps
# the gradient in bounding-box units and SHARED between its users
DIRECT = {
    "bbrect": lambda cx, cy, sw, sh: f'<rect x="{cx - sw / 2:g}" y="{cy - sh * .35:g}" width="{sw:g}" height="{sh * .7:g}" fill="url(#lg)"/>',
    "bbellipse": lambda cx, cy, sw, sh: f'<ellipse cx="{cx:g}" cy="{cy:g}" rx="{sw / 2:g}" ry="{sh * .4:g}" fill="url(#rg)"/>',
    "usrect": lambda cx, cy, sw, sh: f'<rect x="{cx - sw / 2:g}" y="{cy - sh * .35:g}" width="{sw:g}" height="{sh * .7:g}" fill="url(#ug)"/>',
}


def place(shape, vb, gx, gy, scale=0.36):
    x, y, w, h = vb
    cx, cy = x + gx * w, y + gy * h
    if shape in DIRECT:
        return DIRECT[shape](cx, cy, scale * w, scale * h)
    return f'<g transform="translate({cx:g},{cy:g}) scale({scale * w:g},{scale * h:g})">{UNIT[shape]}</g>'


def source_doc(vb, items, kept_group=False, covering=False):
    body = "".join(place(s, vb, gx, gy) for s, gx, gy in items)
    if covering:
        body = place("rect", vb, 0.5, 0.5, scale=1.6) + body
    if kept_group:
        body = f'<g opacity=".6">{body}</g>'
    return f'<svg {NS} viewBox="{vb[0]:g} {vb[1]:g} {vb[2]:g} {vb[3]:g}"><defs>{GRAD_DEF}</defs>{body}</svg>'


def wrap_in_viewbox_clip(pico, vb):
    """the reference meaning of 'clipped to the viewBox': same content under a clip rectangle"""
    i = pico.index(">", pico.index("<svg")) + 1
    j = pico.rindex("</svg>")
    inner = pico[i:j]
    # keep defs (first child) outside the clipped group
    defs = ""
    if inner.startswith("<defs"):
        if inner.startswith("<defs/>"):
            k = len("<defs/>")
        else:
            k = inner.index("</defs>") + len("</defs>")
        defs, inner = inner[:k], inner[k:]
    clip = f'<clipPath id="__vb"><rect x="{vb[0]!r}" y="{vb[1]!r}" width="{vb[2]!r}" height="{vb[3]!r}"/></clipPath>'
    return pico[:i] + defs + clip + f'<g clip-path="url(#__vb)">{inner}</g>' + "</svg>"


def judge(src, vb, seed, tier, via="lib"):
    from picosvg.svg import SVG

    try:
        pico = SVG.fromstring(src).topicosvg()
        pico_s = pico.tostring()
    except Exception as e:  # noqa
        return "source-rejected", f"source did not convert: {type(e).__name__}: {e}", None, {}
    try:
        if via == "inplace":
            obj = SVG.fromstring(pico_s)
            r = obj.clip_to_viewbox(inplace=True)
            if r is not obj:
                return "returned", "clip_to_viewbox(inplace=True) did not return the receiver", None, {}
            out = obj.tostring()
        else:
            obj = SVG.fromstring(pico_s)
            res = obj.clip_to_viewbox()
            out = res.tostring()
            if obj.tostring() != SVG.fromstring(pico_s).tostring():
                return "returned", "clip_to_viewbox() modified the receiver", None, {}
    except Exception as e:  # noqa
        return "raised:" + type(e).__name__, f"clip_to_viewbox raised {type(e).__name__}: {e}", pico_s, {}
    ref = wrap_in_viewbox_clip(pico_s, vb)
    try:
        r = scene.compare(ref, out, G=24 if tier == "quick" else 36, phase=seed % 8)
    except scene.Unsupported as e:
        return "returned", f"clipped document cannot be rendered: {e}", out, {}
    if not r["ok"]:
        return "returned", r["why"], out, r["stats"]
    # nothing may be left outside the viewBox, however thin (thinner than the renderer's band): exact boxes of the output paths
    try:
        root = R4.parse_xml(out)
        lim = 2e-5 * max(vb[2], vb[3], abs(vb[0]), abs(vb[1]), 1.0)  # Skia stores float32
        for el in root.iter():
            if R4.split(el.tag)[1] == "path" and (el.get("d") or "").strip():
                tb = R1.tight_box(R1.interpret_string(el.get("d")))
                if tb and (tb[0] < vb[0] - lim or tb[1] < vb[1] - lim or tb[2] > vb[0] + vb[2] + lim or tb[3] > vb[1] + vb[3] + lim):
                    return "returned", f"a path of the clipped document reaches outside the viewBox: its exact box is {tuple(round(v, 6) for v in tb)}, the viewBox {vb}", out, r["stats"]
    except (R1.Reject, ValueError) as e:  # noqa
        return "returned", f"clipped document has unreadable path data: {e}", out, r["stats"]
    bad = R4.validate(out, ndigits=None)  # clip_to_viewbox has no ndigits contract: rounding is not judged here
    if bad:
        return "returned", "clipped document violates the picosvg grammar: " + "; ".join(bad)[:300], out, r["stats"]
    return "returned", None, out, r["stats"]


def evaluate(case):
    fam = case["fam"]
    if fam == "bbox":
        return evaluate_bbox(case)
    if fam == "cli":
        return evaluate_cli(case)
    if fam == "rects":
        return evaluate_rects(case)
    vb = tuple(case["vb"])
    items = [tuple(i) for i in case["items"]]
    src = source_doc(vb, items, case.get("group", False), case.get("covering", False))
    if case.get("vbsep"):
        # the same viewBox with another legal separator between its numbers
        import re as _re

        src = _re.sub(r'viewBox="([^"]+)"', lambda m: 'width="200" height="150" viewBox="' + case["vbsep"].join(m.group(1).split()) + '"', src, count=1)
    o, why, out, st = judge(src, vb, case["seed"], case["tier"], case.get("via", "lib"))
    straddle = any(g in (0.0, 1.0) for _, gx, gy in items for g in (gx, gy)) or case.get("covering", False) or case.get("hair", False)
    outside = any(g in (-0.42, 1.42) for _, gx, gy in items for g in (gx, gy))
    nt = src if (o == "returned" and (straddle or outside)) else None
    rec = {"out": o, "nt": nt, "viol": [], "cnt": {"compared_points": st.get("compared", 0)}}
    if why and o != "source-rejected":
        rec["viol"].append({"sig": {"kind": "clip", "straddle": straddle, "outside": outside, "via": case.get("via", "lib")}, "case": dict(case), "detail": {"why": why, "source": src, "output": (out or "")[:2500]}})
    if nt and len(items) > 1:
        rec["sample"] = {"source": src}
    return rec


def evaluate_cli(case):
    from picosvg.svg import SVG

    vb = tuple(case["vb"])
    src = source_doc(vb, [tuple(i) for i in case["items"]])
    with tempfile.TemporaryDirectory() as td:
        f = os.path.join(td, "in.svg")
        open(f, "w").write(src)
        p = subprocess.run([sys.executable, "-m", "picosvg.picosvg", "--clip_to_viewbox", f], capture_output=True, text=True, timeout=120)
    if p.returncode != 0:
        return {"out": "cli-failed", "nt": None, "viol": [{"sig": {"kind": "cli-failed"}, "case": dict(case), "detail": {"why": p.stderr[-400:]}}]}
    out = p.stdout
    pico_s = SVG.fromstring(src).topicosvg().tostring()
    ref = wrap_in_viewbox_clip(pico_s, vb)
    r = scene.compare(ref, out, G=24, phase=0)
    viols = []
    if not r["ok"]:
        viols.append({"sig": {"kind": "clip", "via": "cli"}, "case": dict(case), "detail": {"why": r["why"], "output": out[:2000]}})
    return {"out": "cli-returned", "nt": src, "viol": viols}


# ---------------------------------------------------------------------------
# bounding boxes

BBOX_PATHS = [
    "M10,10 L40,12 L35,40 L12,30 Z",
    "M10,20 C15,-15 30,-15 35,20",
    "M0,0 C40,0 40,30 0,30",
    "M10,30 Q25,-20 40,30",
    "M5,5 C60,5 -20,40 35,40",
    "M10,10 C10,40 40,40 40,10 S70,-20 70,10",
    "M8,30 Q20,2 34,28 T60,30",
    "M10,20 A12,12 0 0 1 34,20",
    "M10,20 A14,8 30 1 1 30,25",
    "M10,20 A14,8 30 0 0 30,25 L5,5 Z",
    "M0,0 L10,0 M50,50 L60,65",
    "M20,20 h10 v10 h-10 z m30,5 q5,-20 10,0",
    "M3,4",
    "M3,4 L3,4",
    "M-5,-5 L5,5",
    "M10,10 C20,10 30,10 40,10",
    "M10,10 C30,30 -10,30 10,10",
]


def evaluate_bbox(case):
    from picosvg import svg_types as T
    from picosvg.svg import SVG

    outs = collections.Counter()
    viols = []
    nts = set()
    n = 0
    for kind, spec in case["shapes"]:
        n += 1
        try:
            if kind == "path":
                sh = T.SVGPath(d=spec)
                d = spec
            else:
                cls = {"rect": T.SVGRect, "circle": T.SVGCircle, "ellipse": T.SVGEllipse, "line": T.SVGLine, "polygon": T.SVGPolygon, "polyline": T.SVGPolyline}[kind]
                sh = cls(**spec)
                d = sh.as_path().d
            bb = sh.bounding_box()
            got = (bb.x, bb.y, bb.x + bb.w, bb.y + bb.h)
        except Exception as e:  # noqa
            outs["raised:" + type(e).__name__] += 1
            continue
        subs = R1.interpret_string(d) if d else []
        ref = R1.tight_box(subs, include_moves=True)
        if ref is None:
            outs["empty"] += 1
            continue
        scale = max(1.0, max(abs(v) for v in ref))
        tol = 1e-4 * scale  # Skia stores float32 coordinates
        outs["returned"] += 1
        nts.add(core.h64(repr((kind, spec))))
        # move-only points: Skia's bounds ignore a trailing moveto; compare against both readings
        ref2 = R1.tight_box(subs, include_moves=False) or ref
        ok = all(abs(a - b) <= tol for a, b in zip(got, ref)) or all(abs(a - b) <= tol for a, b in zip(got, ref2))
        if not ok:
            viols.append({"sig": {"kind": "bbox", "shape": kind}, "case": {"fam": "bbox1", "kind": kind, "spec": spec}, "detail": {"why": f"bounding_box() of {kind} {spec!r} = {got}, exact extrema box = {ref}"}})
    # document boxes = union of shape boxes
    for doc in case.get("docs", []):
        n += 1
        try:
            svg = SVG.fromstring(doc)
            bb = svg.bounding_box()
            boxes = []
            for s in svg.shapes():
                d = s.as_path().d
                t = R1.tight_box(R1.interpret_string(d)) if d else None
                if t:
                    boxes.append(t)
        except Exception as e:  # noqa
            outs["docraised:" + type(e).__name__] += 1
            continue
        if not boxes or bb is None:
            continue
        ref = (min(b[0] for b in boxes), min(b[1] for b in boxes), max(b[2] for b in boxes), max(b[3] for b in boxes))
        got = (bb.x, bb.y, bb.x + bb.w, bb.y + bb.h)
        outs["doc"] += 1
        nts.add(core.h64(doc))
        if not all(abs(a - b) <= 1e-4 * max(1.0, max(abs(v) for v in ref)) for a, b in zip(got, ref)):
            viols.append({"sig": {"kind": "bbox-doc"}, "case": {"fam": "bboxdoc", "doc": doc}, "detail": {"why": f"document bounding_box() = {got}, union of exact shape boxes = {ref}"}})
    return {"n": n, "outs": outs, "nts": nts, "viol": viols}


DOC_SHAPES = [
    '<rect x="10" y="12" width="20" height="14" fill="red"/>',
    '<line x1="-5" y1="40" x2="60" y2="40" stroke="black"/>',  # horizontal: zero-height box
    '<line x1="70" y1="-8" x2="70" y2="30" stroke="black"/>',  # vertical: zero-width box
    '<path d="M5,55 H45" stroke="blue"/>',
    '<path d="M-12,3 V58 M-12,20 V70" stroke="blue"/>',
    '<circle cx="20" cy="20" r="6" fill="green"/>',
    '<path d="M15,50 C25,80 35,80 45,50" fill="none" stroke="red"/>',
    '<polyline points="80,5 80,5" stroke="red"/>',
]


def bbox_docs(tier):
    n = len(DOC_SHAPES)
    sizes = (1, 2) if tier == "quick" else (1, 2, 3)
    for k in sizes:
        for combo in itertools.permutations(range(n), k) if k < 3 else itertools.combinations(range(n), k):
            yield f'<svg {NS} viewBox="0 0 100 100">' + "".join(DOC_SHAPES[i] for i in combo) + "</svg>"
    # shapes 0-4 kept groups deep (round 7): side by side, and one nested inside the other's group chain
    def nest(x, d):
        for _ in range(d):
            x = f'<g opacity=".5">{x}</g>'
        return x
    for (i, j), da, db in itertools.product(((0, 5), (1, 2), (6, 0), (3, 4)), range(5), range(5)):
        yield f'<svg {NS} viewBox="0 0 100 100">' + nest(DOC_SHAPES[i], da) + nest(DOC_SHAPES[j], db) + "</svg>"
        yield f'<svg {NS} viewBox="0 0 100 100">' + nest(DOC_SHAPES[i] + nest(DOC_SHAPES[j], db), da) + "</svg>"


def evaluate_rects(case):
    """Rect.union / Rect.intersection over a small exhaustive lattice incl. zero-width / zero-height boxes"""
    from picosvg.geometric_types import Rect

    vals = [(x, w) for x in (-2, 0, 3) for w in (0, 1.5, 4)]
    rects = [(x, y, w, h) for x, w in vals for y, h in vals]
    outs = collections.Counter()
    viols = []
    nts = set()
    for a in rects:
        A = Rect(*a)
        for b in rects:
            B = Rect(*b)
            u = A.union(B)
            exp = (min(a[0], b[0]), min(a[1], b[1]), max(a[0] + a[2], b[0] + b[2]), max(a[1] + a[3], b[1] + b[3]))
            got = (u.x, u.y, u.x + u.w, u.y + u.h)
            outs["union"] += 1
            if a[2] == 0 or a[3] == 0 or b[2] == 0 or b[3] == 0:
                nts.add(core.h64(repr((a, b))))
            if any(abs(p - q) > 1e-12 for p, q in zip(got, exp)):
                viols.append({"sig": {"kind": "rect-union", "degenerate_operand": bool(a[2] == 0 or a[3] == 0 or b[2] == 0 or b[3] == 0)}, "case": {"fam": "rects", "a": a, "b": b}, "detail": {"why": f"Rect{a}.union(Rect{b}) = {tuple(u)}; the smallest box containing both spans {exp}"}})
            i = A.intersection(B)
            ox = (max(a[0], b[0]), min(a[0] + a[2], b[0] + b[2]))
            oy = (max(a[1], b[1]), min(a[1] + a[3], b[1] + b[3]))
            outs["intersection"] += 1
            if ox[0] < ox[1] and oy[0] < oy[1]:
                if i is None or any(abs(p - q) > 1e-12 for p, q in zip((i.x, i.y, i.x + i.w, i.y + i.h), (ox[0], oy[0], ox[1], oy[1]))):
                    viols.append({"sig": {"kind": "rect-intersection"}, "case": {"fam": "rects", "a": a, "b": b}, "detail": {"why": f"Rect{a}.intersection(Rect{b}) = {i}; the boxes overlap in {(ox, oy)}"}})
            elif ox[0] > ox[1] or oy[0] > oy[1]:
                if i is not None:
                    viols.append({"sig": {"kind": "rect-intersection"}, "case": {"fam": "rects", "a": a, "b": b}, "detail": {"why": f"Rect{a}.intersection(Rect{b}) = {i} although the boxes are disjoint"}})
    return {"n": 2 * len(rects) ** 2, "outs": outs, "nts": nts, "viol": viols[:40]}


def bbox_shapes():
    import re as _re

    from mc.gen import big
    from mc.props import c09, c13

    out = [("path", d) for d in BBOX_PATHS]
    # long curved outlines (60 / 200 segments): the box is still the box of the curve, not of its control points
    for n in (47, 48, 60, 200):
        out.append(("path", _re.search(r' d="([^"]+)"', big.long_curve(n)[1]).group(1)))
    out += [("path", d) for d in c13.LIB.values()]
    for case in c09.shape_cases("quick"):
        p = {k: v for k, v in case["p"].items() if v is not None}
        if case["tag"] == "rect" and (p.get("width", 0) <= 0 or p.get("height", 0) <= 0):
            continue
        if case["tag"] in ("circle",) and p.get("r", 0) <= 0:
            continue
        if case["tag"] == "ellipse" and (p.get("rx", 0) <= 0 or p.get("ry", 0) <= 0):
            continue
        if case["tag"] in ("polygon", "polyline") and not p.get("points"):
            continue
        out.append((case["tag"], p))
    return out


def all_clip_cases(tier, seed):
    shapes = list(UNIT)
    pos = [(gx, gy) for gx in GRID for gy in GRID]
    for vb in VIEWBOXES:
        for s in shapes:
            for gx, gy in pos:
                yield {"fam": "clip", "vb": list(vb), "items": [[s, gx, gy]], "tier": tier, "seed": seed}
        for s in ("rect", "ring", "group"):
            yield {"fam": "clip", "vb": list(vb), "items": [[s, 0.5, 0.5]], "covering": True, "tier": tier, "seed": seed}
    # shapes that stick out of the viewBox by a hair (0.05% / 0.002% of its size) on one or two sides
    for vb in VIEWBOXES:
        for s in ("rect", "circle", "tri", "bbrect"):
            for gx, gy in ((0.8205, 0.5), (0.82002, 0.5), (0.5, 0.1795), (0.8205, 0.82002), (0.17998, 0.8205)):
                yield {"fam": "clip", "vb": list(vb), "items": [[s, gx, gy]], "tier": tier, "seed": seed, "hair": True}
    # viewBox written with commas / tabs / line breaks between its numbers
    for vb in VIEWBOXES:
        for sep in (",", ", ", "\t", "\n ", " ,"):
            for s_, gx, gy in (("rect", 1.0, 0.5), ("circle", 0.0, 0.0), ("tri", 1.42, 0.5)):
                yield {"fam": "clip", "vb": list(vb), "items": [[s_, gx, gy], ["rect", 0.5, 0.5]], "vbsep": sep, "tier": tier, "seed": seed}
    # geometry that misses the viewBox although its box overlaps it, alone and between two shapes that stay
    for vb in VIEWBOXES:
        for s, gx, gy in (("frame", 0.5, 0.5), ("cornerL", 1.0, 1.0), ("diag", 0.0, 0.0)):
            yield {"fam": "clip", "vb": list(vb), "items": [["rect", 0.3, 0.3], [s, gx, gy], ["circle", 0.6, 0.6]], "via": "inplace", "tier": tier, "seed": seed}
            yield {"fam": "clip", "vb": list(vb), "items": [[s, gx, gy], ["tri", 0.5, 0.5]], "group": True, "tier": tier, "seed": seed}
    # two shapes: all position pairs for (rect, circle) on the first viewBox, in-place mode
    vb = VIEWBOXES[0]
    for (p1, p2) in itertools.product(pos, repeat=2):
        if tier == "quick" and (pos.index(p1) + pos.index(p2)) % 2:
            continue
        yield {"fam": "clip", "vb": list(vb), "items": [["rect", *p1], ["circle", *p2]], "via": "inplace", "tier": tier, "seed": seed}
    # kept group around two shapes, one of which leaves the viewBox
    for vb in VIEWBOXES[:2] if tier == "quick" else VIEWBOXES:
        for p1, p2 in itertools.product(pos[::2], pos[1::3]):
            yield {"fam": "clip", "vb": list(vb), "items": [["tri", *p1], ["cubic", *p2]], "group": True, "tier": tier, "seed": seed}
    # gradients in bounding-box units / shared between shapes (written without transforms so that they stay so)
    for vb in VIEWBOXES[:2] if tier == "quick" else VIEWBOXES:
        for s in DIRECT:
            for gx, gy in pos:
                yield {"fam": "clip", "vb": list(vb), "items": [[s, gx, gy]], "tier": tier, "seed": seed}
        for s in DIRECT:
            for p1, p2 in itertools.product(pos[::2] if tier == "quick" else pos, [(0.5, 0.5), (0.0, 1.0), (1.42, 0.5)]):
                yield {"fam": "clip", "vb": list(vb), "items": [[s, *p1], [s, *p2]], "via": "inplace" if pos.index(p1) % 2 else "lib", "tier": tier, "seed": seed}
    if tier == "thorough":
        for vb in VIEWBOXES[1:]:
            for p1, p2, p3 in itertools.product(pos[::3], pos[1::4], pos[2::5]):
                yield {"fam": "clip", "vb": list(vb), "items": [["ring", *p1], ["grad", *p2], ["group", *p3]], "group": (pos.index(p1) % 2 == 0), "tier": tier, "seed": seed}


def corpus_for_c07(tier, seed):
    for k, c in enumerate(all_clip_cases("quick", 0)):
        if k % (9 if tier == "quick" else 3) == 0:
            yield source_doc(tuple(c["vb"]), [tuple(i) for i in c["items"]], c.get("group", False), c.get("covering", False))


def cases(tier, seed):
    yield from all_clip_cases(tier, seed)
    pos = [(0.0, 0.5), (0.5, 0.5), (1.0, 1.0), (1.42, 0.5)]
    for k, (s, gx, gy) in enumerate((("frame", 0.5, 0.5), ("cornerL", 1.0, 1.0), ("diag", 0.0, 0.0))):
        yield {"fam": "cli", "vb": list(VIEWBOXES[k % 4]), "items": [[s, gx, gy], ["rect", 0.5, 0.5]]}
    for k, s in enumerate(list(UNIT)[:5] + list(DIRECT)):
        for p in pos:
            yield {"fam": "cli", "vb": list(VIEWBOXES[k % 4]), "items": [[s, *p]]}
    for k, s in enumerate(DIRECT):
        yield {"fam": "cli", "vb": list(VIEWBOXES[k % 4]), "items": [[s, 1.42, 0.5], [s, 0.5, 0.5]]}
    shapes = bbox_shapes()
    docs = [source_doc(VIEWBOXES[0], [("rect", 0.2, 0.3), ("cubic", 0.8, 0.6)]), source_doc(VIEWBOXES[1], [("circle", 0.0, 0.0), ("tri", 1.0, 1.0), ("ring", 0.5, 1.42)])]
    for i in range(0, len(shapes), 60):
        yield {"fam": "bbox", "shapes": shapes[i : i + 60], "docs": docs if i == 0 else []}
    more = list(bbox_docs(tier))
    for i in range(0, len(more), 20):
        yield {"fam": "bbox", "shapes": [], "docs": more[i : i + 20]}
    yield {"fam": "rects"}


def run(run):
    run.rule = (
        "E2 + R3: pico documents obtained by converting sources built from 10 shapes (rect, triangle, circle, evenodd ring, cubic with extrema between control points, translucent two-shape group, frame around the whole viewBox, L hugging a corner from outside, diagonal band past a corner, "
        "gradient-filled rect; and, written in absolute coordinates so that the gradient stays in bounding-box units and shared: rect / ellipse with linear / radial bounding-box gradients, rect with a user-space gradient, singly and in pairs sharing the gradient) placed at each of 25 grid positions relative to the viewBox (inside, outside x8, straddling each side and corner) + covering shapes, 3 viewBoxes (incl. negative and "
        "fractional origin/size), single shapes, all/half of the position pairs of two shapes (in-place mode), kept group around two shapes, triples (thorough); CLI flag on 20 documents. Oracle: "
        "clipped document == original under a clip to the viewBox rectangle (paint stacks and composites at all lattice/probe points outside the band), R4 grammar. Bounding boxes: exact-extrema "
        "boxes (Bezier derivative roots, ellipse parametrisation) for a library of paths and the C09 shape lattice, document box = union over all ordered selections of 1-2 (thorough: 3) of 8 shapes incl. horizontal / vertical lines and a point, plus pairs of shapes each 0-4 kept (translucent) groups deep, side by side or one inside the other's chain; "
        "Rect.union / Rect.intersection on all 81 x 81 pairs of a box lattice incl. zero-width / zero-height boxes. Non-trivial = clip cases where a shape straddles or lies "
        "outside the viewBox; distinct bbox shapes."
    )
    run.assumptions = ["bounding boxes compared with 1e-4 relative tolerance (Skia stores float32)"]
    run.floor_nt = 300
    run.run_cases(MOD, cases(run.tier, run.seed), chunk=8)
    run.cov["compared_points"] = int(run.cnt.get("compared_points", 0))


def replay(case):
    if case.get("fam") == "clip":
        return evaluate(case)["viol"]
    if case.get("fam") == "bbox1":
        return evaluate_bbox({"shapes": [(case["kind"], case["spec"])]})["viol"]
    if case.get("fam") == "cli":
        return evaluate_cli(case)["viol"]
    if case.get("fam") == "bboxdoc":
        return evaluate_bbox({"shapes": [], "docs": [case["doc"]]})["viol"]
    if case.get("fam") == "rects":
        return evaluate_rects(case)["viol"]
    return []
