"""C04 - strokes are rendered into equivalent filled outlines drawn above the fill.

E2 + R3 with the three-valued stroke classifier (mc/ref/stroke3.py): geometry x
width x cap x join x miterlimit x dash array/offset x outer transform x where
the stroke properties are set x fill x opacities.
"""
import itertools

from mc import core
from mc.gen.docs import NS
from mc.props import render_common as RC

ID = "C04"
LEVEL = "exploration"
MOD = "mc.props.c04"

GEOMS = {
    "polyline": '<path d="M18,72 L48,18 L78,66"{a}/>',
    "triangle": '<path d="M20,70 L52,18 L82,62 Z"{a}/>',
    "twosub": '<path d="M15,30 L60,22 L45,48 M30,80 L85,58 L70,85 Z"{a}/>',
    "scurve": '<path d="M15,55 C30,5 50,5 52,45 S75,90 88,40"{a}/>',
    "spike": '<path d="M30,82 L50,17 L60,82"{a}/>',
    "rect": '<rect x="22" y="28" width="52" height="38"{a}/>',
    "circle": '<circle cx="50" cy="48" r="27"{a}/>',
    "line": '<line x1="18" y1="25" x2="80" y2="70"{a}/>',
    # basic shapes with sharp corners (they are rewritten to paths before stroking: every stroke property must come along)
    "spikepoly": '<polygon points="30,82 50,17 60,82"{a}/>',
    # a long self-crossing polyline (130 segments): the kind of outline on which Skia's simplify() of the stroke may give up
    "scribble": '<polyline points="' + " ".join(f"{50 + 0.3 * i * __import__('math').cos(1.3 * i):.3f},{50 + 0.3 * i * __import__('math').sin(1.3 * i):.3f}" for i in range(131)) + '"{a}/>',
    "spikeline": '<polyline points="30,82 50,17 60,82"{a}/>',
}
GEOMS_GENERIC = [g for g in GEOMS if g != "scribble"]
DASHES = [("none", 0), ("10", 0), ("10", 7), ("10 5", 0), ("10 5", -3), ("10 5 2", 0), ("10 5 2", 7), ("10,5,2", -3), ("0 12", 0), ("0 12", 5), ("6 0 0 10", 0), ("6 0 4 10", 3)]
ZERO_DASHES = [("0 12", 0), ("6 0 0 10", 0), ("6 0 4 10", 3)]
# the same numbers in the other spellings the number grammar allows (exponents, leading '+' / '.', mixed separators)
FORMAT_DASHES = [("1e1 5", 0), ("25e-1 75e-1", 0), (".5e1,1E1", 2), ("+10 +5", 0), ("10 , 5", 0), ("1.0e+1 0.5e1 2", 7)]
TRANSFORMS = [None, "scale(1.5,.6)", "rotate(30) translate(12,-18)"]
WHERE = ["attr", "style", "group", "root"]


def document(geom, width, cap, join, ml, dash, offset, tf, where, fill, translucent):
    props = {"stroke": "blue", "stroke-width": str(width)}
    if cap != "butt":
        props["stroke-linecap"] = cap
    if join != "miter":
        props["stroke-linejoin"] = join
    if ml != 4:
        props["stroke-miterlimit"] = str(ml)
    if dash != "none":
        props["stroke-dasharray"] = dash
    if offset:
        props["stroke-dashoffset"] = str(offset)
    if translucent:
        props["stroke-opacity"] = "0.5"
    own = f' fill="{fill}"'
    if translucent and fill != "none":
        own += ' fill-opacity="0.5"'
    if tf and where != "group":
        own += f' transform="{tf}"'
    pa = "".join(f' {k}="{v}"' for k, v in props.items())
    ps = ' style="' + ";".join(f"{k}:{v}" for k, v in props.items()) + '"'
    root = ""
    if where.startswith("override:"):
        # the shape's own values versus DIFFERENT values of the same properties on its group (incl. an explicit default
        # against a non-default ancestor, and numbers that differ only by trailing zeros: 1 vs 10, 4 vs 40, 2.5 vs 2.50)
        inh = dict(props)
        inh["stroke-width"] = where.split(":")[1]
        inh["stroke-miterlimit"] = where.split(":")[2]
        inh["stroke-linecap"] = "round" if cap == "butt" else "butt"
        inh["stroke-dashoffset"] = "50"
        mine = dict(props)
        mine.setdefault("stroke-linecap", cap)
        mine.setdefault("stroke-miterlimit", str(ml))
        mine.setdefault("stroke-dashoffset", str(offset))
        gp = "".join(f' {k}="{v}"' for k, v in inh.items())
        sp = "".join(f' {k}="{v}"' for k, v in mine.items())
        body = f"<g{gp}>" + GEOMS[geom].format(a=own + sp) + "</g>"
    elif where == "attr":
        body = GEOMS[geom].format(a=own + pa)
    elif where == "style":
        body = GEOMS[geom].format(a=own + ps)
    elif where == "group":
        t = f' transform="{tf}"' if tf else ""
        body = f"<g{pa}{t}>" + GEOMS[geom].format(a=own) + "</g>"
    else:
        root = pa
        body = GEOMS[geom].format(a=own)
    return f'<svg {NS} viewBox="0 0 100 100"{root}>{body}</svg>'


def all_cases(tier):
    if tier == "quick":
        widths, mls = [10], [4]
        dashes = [("none", 0), ("10 5 2", 7), ("10", -3)]
        for geom, cap, join, (dash, off), tf, where, fill, tr in itertools.product(GEOMS_GENERIC, ("butt", "round", "square"), ("miter", "round", "bevel"), dashes, TRANSFORMS, WHERE, ("none", "orange"), (False, True)):
            if where in ("style", "root") and (tf is not None or tr):
                continue
            if tr and fill == "none":
                continue
            if dash != "none" and geom in ("rect", "line") and where != "attr":
                continue
            yield (geom, 10, cap, join, 4, dash, off, tf, where, fill, tr)
        for geom, ml, join in itertools.product(("polyline", "triangle", "spike", "spikepoly", "spikeline", "rect"), (1, 10), ("miter",)):
            yield (geom, 10, "butt", join, ml, "none", 0, None, "attr", "none", False)
            if geom in ("spikepoly", "spikeline", "rect"):
                yield (geom, 10, "butt", join, ml, "none", 0, None, "group", "orange", False)
                yield (geom, 4, "square", join, ml, "none", 0, None, "style", "none", False)
        for geom in GEOMS_GENERIC:
            yield (geom, 4, "round", "round", 4, "10 5", 0, None, "attr", "orange", False)
        # stroke-width 0: nothing is stroked (SVG 11.4: "a zero value causes no stroke to be painted"), whatever the other properties say
        for geom, cap, join, (dash, off), where, fill in itertools.product(GEOMS_GENERIC, ("butt", "round", "square"), ("miter", "round"), (("none", 0), ("10 5", 0)), WHERE, ("none", "orange")):
            if cap != "butt" and where != "attr":
                continue
            yield (geom, 0, cap, join, 4, dash, off, None, where, fill, False)
        for geom, cap, (dash, off), where in itertools.product(("polyline", "line", "circle"), ("butt", "square"), FORMAT_DASHES, ("attr", "style", "group")):
            yield (geom, 10 if cap == "butt" else 4, cap, "round", 4, dash, off, None, where, "none", False)
        for geom, (w, inh_w, inh_ml), cap, dash in itertools.product(("polyline", "spike", "rect"), ((10, "1", "40"), (4, "40", "4.0"), (10, "100", "0.4"), (10, "10.0", "4")), ("butt", "round"), (("none", 0), ("10 5", 0))):
            yield (geom, w, cap, "miter", 4, dash[0], dash[1], None, f"override:{inh_w}:{inh_ml}", "none", False)
        for cap, join, where in itertools.product(("butt", "round", "square"), ("miter", "round", "bevel"), ("attr", "group")):
            yield ("scribble", 2, cap, join, 4, "none", 0, None, where, "none", False)
        # dash arrays with zero entries: a zero dash is a dot under round / square caps and nothing under butt caps; a zero gap joins its neighbours
        for geom, cap, (dash, off), fill in itertools.product(("line", "polyline", "rect", "circle"), ("butt", "round", "square"), ZERO_DASHES, ("none", "orange")):
            if geom in GEOMS:
                yield (geom, 4, cap, "round", 4, dash, off, None, "attr", fill, False)
    else:
        for geom, cap, join, (dash, off), tf, where, fill, tr in itertools.product(GEOMS_GENERIC, ("butt", "round", "square"), ("miter", "round", "bevel"), (("none", 0), ("10 5", 0), ("0 12", 0)), TRANSFORMS, WHERE, ("none", "orange"), (False, True)):
            if tr and fill == "none":
                continue
            yield (geom, 0, cap, join, 4, dash, off, tf, where, fill, tr)
        for geom, w, cap, join, ml, (dash, off), tf, where, fill, tr in itertools.product(GEOMS_GENERIC, (4, 10), ("butt", "round", "square"), ("miter", "round", "bevel"), (1, 4, 10), DASHES, TRANSFORMS, WHERE, ("none", "orange"), (False, True)):
            if tr and fill == "none":
                continue
            if ml != 4 and (join != "miter" or where != "attr" or tr):
                continue
            if where in ("style", "root") and (tf is not None and dash != "none"):
                continue
            if w == 4 and (where != "attr" or tr):
                continue
            yield (geom, w, cap, join, ml, dash, off, tf, where, fill, tr)


def corpus_for_c07(tier, seed):
    for k, c in enumerate(all_cases("quick")):
        if k % (13 if tier == "quick" else 3) == 0:
            yield document(*c)


def _stroke_without_simplify(svg_cmds, svg_linecap, svg_linejoin, stroke_width, stroke_miterlimit, tolerance, dash_array=(), dash_offset=0.0):
    """svg_pathops.stroke minus its final Path.simplify() - used only to attribute a violation"""
    from picosvg import svg_pathops as P

    sk = P.skia_path(svg_cmds, fill_rule="nonzero")
    sk.stroke(stroke_width, P._SVG_TO_SKIA_LINE_CAP[svg_linecap], P._SVG_TO_SKIA_LINE_JOIN[svg_linejoin], stroke_miterlimit, dash_array, dash_offset)
    sk.convertConicsToQuads(tolerance)
    return P.svg_commands(sk)


def _stroke_reference(svg_cmds, svg_linecap, svg_linejoin, stroke_width, stroke_miterlimit, tolerance, dash_array=(), dash_offset=0.0):
    """what svg_pathops.stroke computes on the unchanged tree, spelled out: Skia stroker, conics to quads, simplify (with fallback)"""
    import pathops
    from picosvg import svg_pathops as P

    sk = P.skia_path(svg_cmds, fill_rule="nonzero")
    sk.stroke(stroke_width, P._SVG_TO_SKIA_LINE_CAP[svg_linecap], P._SVG_TO_SKIA_LINE_JOIN[svg_linejoin], stroke_miterlimit, dash_array, dash_offset)
    sk.convertConicsToQuads(tolerance)
    backup = pathops.Path(sk)
    try:
        sk.simplify(fix_winding=True)
    except pathops.PathOpsError:
        sk = backup
    return P.svg_commands(sk)


def diagnose(doc, tier, seed):
    """Is the violation produced by Skia's simplify() of the stroker output (a defect below picosvg)?
    Two conditions: (1) every call picosvg makes to svg_pathops.stroke during this conversion returns exactly what the
    plain Skia pipeline (stroker, conics to quads, simplify) returns for the same arguments - i.e. nothing in picosvg's
    own stroke code contributes; (2) the same conversion with that one simplify() call skipped satisfies the oracle."""
    from picosvg import svg_pathops as P
    from picosvg import svg_types as T

    orig = P.stroke
    same = []

    def recording(*a, **kw):
        got = list(orig(*a, **kw))
        try:
            want = list(_stroke_reference(*a, **kw))
        except Exception:
            want = None
        same.append(want is not None and got == want)
        return iter(got)

    holders = [m for m in (P, T) if getattr(m, "stroke", None) is orig]
    try:
        for m in holders:
            m.stroke = recording
        RC.convert(doc)
    except Exception:
        return "other"
    finally:
        for m in holders:
            m.stroke = orig
    if not same or not all(same):
        return "other"
    try:
        for m in holders:
            m.stroke = _stroke_without_simplify
        o, why, kind, nt, st, out = RC.judge(doc, tier, seed, min_inside=15, min_outside=15, structural=False)
    except Exception:
        return "other"
    finally:
        for m in holders:
            m.stroke = orig
    return "skia-simplify-after-stroke" if (o == "returned" and not why) else "other"


def evaluate(case):
    k = case["k"]
    doc = document(*k)
    rec = RC.record(
        doc, case["tier"], case["seed"], min_inside=15, min_outside=15,
        sig_extra={"family": "stroke", "geom": k[0], "cap": k[2], "join": k[3], "dash": k[5], "where": k[8]},
        case_extra={"k": k},
    )
    for v in rec["viol"]:
        if v["sig"].get("kind") == "render":
            v["sig"]["cause"] = diagnose(doc, case["tier"], case["seed"])
    return rec


def cases(tier, seed):
    for k in all_cases(tier):
        yield {"k": list(k), "tier": tier, "seed": seed}


def run(run):
    run.rule = (
        "E2 + R3 three-valued strokes: geometry {open polyline with a sharp corner, closed triangle, two-subpath path, cubic S-curve, rect, circle, line} x stroke-width {0 (no stroke at all), 4, 10} x linecap 3 x linejoin 3 "
        "x miterlimit {1,4,10} x dasharray {none, '10' (odd), '10 5', '10 5 2' (odd)} with offsets {0, 7, -3}, the same values in other number spellings (exponents, leading + or ., mixed separators), arrays with zero entries {'0 12', '6 0 0 10', '6 0 4 10'} (zero dash = dot under round/square caps, nothing under butt; zero gap joins its neighbours) x outer transform {none, non-uniform scale, rotate.translate} x where the stroke "
        "properties are set {own attribute, own style, inherited from group, inherited from root, own attributes overriding different group values incl. numbers that differ only by zeros (1 / 10 / 100, 4 / 40 / 4.0)} x fill {none, colour} x {opaque, fill-opacity .5 + stroke-opacity .5} (quick: width 10, miterlimit 4, "
        "3 dash settings). Oracle: at every point the reference classifies definitely inside / outside the ideal stroke region (delta = 0.5 user units in the shape's own coordinate system), "
        "the output shows the stroke paint directly above the fill with the right alphas; undecided points (caps, joins, dash ends, within delta of the outline) are skipped. "
        "Non-trivial = >= 15 decided-inside and >= 15 decided-outside compared points."
    )
    run.assumptions = ["scope of the statement respected: shapes' own opacity is 1", "Skia's stroker resolution (0.25 user units) is inside delta = 0.5"]
    run.floor_nt = 300
    run.run_cases(MOD, cases(run.tier, run.seed), chunk=16)
    run.cov["compared_points"] = int(run.cnt.get("compared_points", 0))


def replay(case):
    if "k" in case:
        return evaluate({"k": case["k"], "tier": "quick", "seed": 0})["viol"]
    return RC.record(case["doc"], "quick", 0, min_inside=15, min_outside=15)["viol"]
