"""C02 - flattening groups, transforms, use and nested svg preserves the rendering.

E2 + R3: four exhaustive document families (single shapes x transform lists,
ancestor chains of g / use / nested svg, instancing and z-order arrangements,
viewport parameters); source and output are rendered by the independent
evaluator at a finite point set (lattice + edge probes) and compared by paint
stack and composite.
"""
import itertools

from mc import core
from mc.gen.docs import NS
from mc.props import render_common as RC

ID = "C02"
LEVEL = "exploration"
MOD = "mc.props.c02"

TF = ["translate(7,3)", "scale(2,.5)", "scale(-1,1) translate(-100,0)", "rotate(30)", "rotate(30,10,5)", "skewX(20)", "skewY(-15)", "matrix(.8,.3,-.2,1.1,4,-6)"]
TF4 = ["translate(7,3)", "scale(1.5,.6)", "rotate(25)", "matrix(.8,.3,-.2,1.1,4,-6)"]

SHAPES1 = {
    "rect": '<rect x="30" y="35" width="25" height="18" fill="red"{t}/>',
    "rrect": '<rect x="28" y="30" width="30" height="22" rx="6" ry="9" fill="red"{t}/>',
    "circle": '<circle cx="45" cy="42" r="11.5" fill="blue"{t}/>',
    "ellipse": '<ellipse cx="45" cy="42" rx="16" ry="7.5" fill="green"{t}/>',
    "line": '<line x1="25" y1="30" x2="60" y2="48" stroke="black" stroke-width="5"{t}/>',
    "polygon": '<polygon points="30,30 58,36 41,55" fill="orange"{t}/>',
    "polyline": '<polyline points="30,52 38,30 47,50 56,31" fill="teal"{t}/>',
    "prel": '<path d="m30 34 l24 3 l-5 16 l-17 -2 z" fill="purple"{t}/>',
    "phv": '<path d="M30 34 h22 v15 h-10 V40 H30 z" fill="maroon"{t}/>',
    "pst": '<path d="M28 45 c4 -14 10 -14 14 0 s10 14 14 0 q-6 14 -14 12 t-14 -12 z" fill="navy"{t}/>',
    "parc": '<path d="M30 45 a12 8 20 1 1 22 4 a9 9 0 0 0 -22 -4 z" fill="olive"{t}/>',
    "peo": '<path fill-rule="evenodd" d="M28 30 h30 v24 h-30 z M35 36 h16 v12 h-16 z M40 20 l12 30 l-22 -4 z" fill="gray"{t}/>',
}
LEAVES2 = {
    "rect": '<rect x="20" y="25" width="22" height="15" fill="red"{t}/>',
    "tri": '<polygon points="20,22 44,30 27,44" fill="blue"{t}/>',
    "arc": '<path d="M20 30 a10 7 15 1 1 18 5 l-6 9 z" fill="green"{t}/>',
}


def doc(body, defs=""):
    d = f"<defs>{defs}</defs>" if defs else ""
    return f'<svg {NS} viewBox="0 0 100 100">{d}{body}</svg>'


# -- S1 -------------------------------------------------------------------


# transforms close to the identity (every entry within 0.1 of it): small, but not nothing - a 100-unit picture moves by several units
TF_NEAR = ["scale(1.06)", "rotate(4)", "matrix(1.03 .02 -.04 .97 .05 -.08)", "translate(.08,-.05) scale(.95)", "skewX(3)"]


def s1_docs(tier):
    for name, tpl in SHAPES1.items():
        yield ("S1", name, ""), doc(tpl.format(t=""))
        for a in TF_NEAR:
            yield ("S1", name, a), doc(tpl.format(t=f' transform="{a}"'))
            yield ("S1", name, "g:" + a), doc(f'<g transform="{a}">' + tpl.format(t="") + "</g>")
            yield ("S1", name, "use:" + a), doc(f'<use xlink:href="#t" transform="{a}"/>', defs=tpl.format(t=' id="t"'))
        for a in TF:
            yield ("S1", name, a), doc(tpl.format(t=f' transform="{a}"'))
        for a, b in itertools.product(TF, repeat=2):
            if tier == "quick" and name not in ("rect", "circle", "pst", "parc", "line", "peo"):
                continue
            yield ("S1", name, a + " " + b), doc(tpl.format(t=f' transform="{a} {b}"'))
        if tier == "thorough" and name in ("rect", "pst", "parc", "peo"):
            for a, b, c in itertools.product(TF, repeat=3):
                yield ("S1", name, f"{a} {b} {c}"), doc(tpl.format(t=f' transform="{a} {b} {c}"'))


# -- S2 -------------------------------------------------------------------

LEVELS = (
    ["g"]
    + [f"gT{i}" for i in range(4)]
    + ["useXY", "useT", "useXYT"]
    + ["svgXY", "svgVBmeet", "svgVBslice"]
)


def wrap(level, inner, defs, k):
    """-> (body, defs) wrapping inner content in one ancestor level; k = depth index"""
    if level == "g":
        return f"<g>{inner}</g>", defs
    if level.startswith("gT"):
        return f'<g transform="{TF4[(int(level[2:]) + k) % 4]}">{inner}</g>', defs
    if level.startswith("use"):
        tid = f"t{k}"
        defs = defs + f'<g id="{tid}">{inner}</g>'
        xy = ' x="7" y="-4"' if "XY" in level else ""
        tr = f' transform="{TF4[(k + 1) % 4]}"' if level.endswith("T") else ""
        return f'<use xlink:href="#{tid}"{xy}{tr}/>', defs
    if level == "svgXY":
        return f'<svg x="12" y="8" width="70" height="60">{inner}</svg>', defs
    if level == "svgVBmeet":
        return f'<svg x="5" y="10" width="80" height="50" viewBox="0 0 60 60" preserveAspectRatio="xMaxYMid meet">{inner}</svg>', defs
    if level == "svgVBslice":
        return f'<svg x="15" y="5" width="60" height="70" viewBox="-5 10 70 40" preserveAspectRatio="xMinYMax slice" overflow="visible">{inner}</svg>', defs
    raise ValueError(level)


def s2_docs(tier):
    maxlen = 2 if tier == "quick" else 3
    for L in range(1, maxlen + 1):
        for chain in itertools.product(LEVELS, repeat=L):
            for leaf, own in itertools.product(LEAVES2, (False, True)):
                if L == 3 and (leaf != "tri" or own):
                    # depth 3: full leaf variation for chains without nested svg, one leaf otherwise
                    if any(c.startswith("svg") for c in chain):
                        continue
                body = LEAVES2[leaf].format(t=' transform="rotate(-20) translate(3,6)"' if own else "")
                defs = ""
                for k, lev in enumerate(reversed(chain)):
                    body, defs = wrap(lev, body, defs, k)
                # a second, untransformed shape below everything keeps z-order observable
                yield ("S2", "/".join(chain), leaf, own), doc('<rect x="0" y="0" width="60" height="45" fill="yellow"/>' + body, defs)
    if tier == "thorough":
        # depth 4 over the g-only sub-alphabet
        for chain in itertools.chain(itertools.product(["g", "gT0", "gT1", "gT2", "gT3"], repeat=4), itertools.product(["gT1", "useXYT", "svgVBmeet", "useT", "svgVBslice"], repeat=4)):
            body = LEAVES2["tri"].format(t="")
            defs = ""
            for k, lev in enumerate(reversed(chain)):
                body, defs = wrap(lev, body, defs, k)
            yield ("S2", "/".join(chain), "tri", False), doc(body, defs)


# -- S3 -------------------------------------------------------------------

ITEMS = {
    "A": '<rect x="20" y="20" width="40" height="30" fill="red"{d}/>',
    "B": '<circle cx="55" cy="45" r="18" fill="blue"{d}/>',
    "C": '<polygon points="35,25 75,40 30,70" fill="green"{d}/>',
    "uA": '<use xlink:href="#ta" x="10" y="12"{d}/>',
    "uA2": '<use xlink:href="#ta" x="-8" y="25"{d}/>',
    "uB": '<use xlink:href="#tb" transform="translate(-12 8)"{d}/>',
    "gAB": '<g{d}><rect x="25" y="30" width="35" height="25" fill="orange"/><circle cx="50" cy="40" r="12" fill="purple"/></g>',
    "guA": '<g transform="translate(5,5)"{d}><use xlink:href="#ta" x="3"/><circle cx="40" cy="40" r="10" fill="teal"/></g>',
}
S3_DEFS = '<rect id="ta" x="15" y="15" width="30" height="30" fill="maroon"/><g id="tb"><circle cx="50" cy="50" r="14" fill="navy"/><rect x="45" y="45" width="25" height="10" fill="lime"/></g>'


def s3_docs(tier):
    names = list(ITEMS)
    lens = [2] if tier == "quick" else [2, 3]
    for L in lens:
        for seq in itertools.product(names, repeat=L):
            hides = [()] + [(i,) for i in range(L)]
            if tier == "thorough" and L == 2:
                hides.append((0, 1))
            for hide in hides:

                body = "".join(ITEMS[n].format(d=' display="none"' if i in hide else "") for i, n in enumerate(seq))
                yield ("S3", "/".join(seq), hide), doc(body, S3_DEFS)
    # display:none on the use target itself and on a group level
    yield ("S3", "target-hidden", ()), doc('<use xlink:href="#h" x="5"/><rect x="10" y="10" width="20" height="20" fill="red"/>', '<rect id="h" width="30" height="30" fill="blue" display="none"/>')
    yield ("S3", "defs-hidden-ancestor", ()), doc('<use xlink:href="#h2" x="5"/>', '<g display="none"><rect id="h2" x="20" y="20" width="30" height="30" fill="blue"/></g>')
    yield ("S3", "use-cancels-target-translate", ()), doc('<use xlink:href="#c1" x="-60" y="-10"/><rect x="10" y="40" width="20" height="20" fill="green"/>', '<rect id="c1" x="70" y="20" width="25" height="20" fill="red" transform="translate(60 10)"/>')
    yield ("S3", "use-cancels-target-scale", ()), doc('<use xlink:href="#c2" transform="scale(0.5)"/><rect x="10" y="40" width="20" height="20" fill="green"/>', '<g id="c2" transform="scale(2)"><rect x="10" y="10" width="25" height="20" fill="red"/></g>')
    yield ("S3", "g-cancels-child", ()), doc('<g transform="translate(-30,-20)"><circle cx="50" cy="50" r="15" fill="blue" transform="translate(30,20)"/></g>')
    yield ("S3", "style-hidden", ()), doc('<g style="display:none"><rect x="10" y="10" width="50" height="50" fill="red"/></g><circle cx="40" cy="40" r="15" fill="green"/>')


# -- S4 -------------------------------------------------------------------

ALIGNS = [f"x{a}Y{b}" for a in ("Min", "Mid", "Max") for b in ("Min", "Mid", "Max")]


def s4_docs(tier):
    boxes = [(10, 15, 60, 40), (0, 0, None, None), (25, 5, 30, 70)]
    vbs = [None, (0, 0, 50, 25), (0, 0, 20, 60), (-10, 5, 40, 40), "same"]
    pars = [None, "none"] + [f"{a} {m}" for a in ALIGNS for m in ("meet", "slice")]
    for (x, y, w, h), vb, par, ov in itertools.product(boxes, vbs, pars, (None, "hidden", "visible")):
        ew, eh = (w or 100), (h or 100)
        if vb == "same":
            v = (x, y, ew, eh)
        else:
            v = vb
        if v is None and par not in (None, "xMidYMid meet"):
            continue  # preserveAspectRatio has no effect without a viewBox
        cx0, cy0, cw, ch = v if v else (0, 0, ew, eh)
        content = (
            f'<rect x="{cx0 - 0.2 * cw}" y="{cy0 + 0.3 * ch}" width="{1.4 * cw}" height="{0.3 * ch}" fill="red"/>'
            f'<circle cx="{cx0 + cw}" cy="{cy0 + ch}" r="{0.3 * min(cw, ch)}" fill="blue"/>'
            f'<polygon points="{cx0 + 0.1 * cw},{cy0 - 0.1 * ch} {cx0 + 0.6 * cw},{cy0 + 0.2 * ch} {cx0 + 0.2 * cw},{cy0 + 0.5 * ch}" fill="green"/>'
        )
        attrs = f' x="{x}" y="{y}"'
        if w is not None:
            attrs += f' width="{w}" height="{h}"'
        if v:
            attrs += ' viewBox="%s %s %s %s"' % v
        if par:
            attrs += f' preserveAspectRatio="{par}"'
        if ov:
            attrs += f' overflow="{ov}"'
        yield ("S4", (x, y, w, h), str(vb), par, ov), doc(f'<rect x="5" y="5" width="90" height="90" fill="yellow"/><svg{attrs}>{content}</svg>')
    # sibling viewports (each needs its own clip), also inside a group and next to a nested pair
    sib = lambda x, c, ov="": f'<svg x="{x}" y="10" width="30" height="40" viewBox="0 0 20 20"{ov}><rect x="-5" y="5" width="30" height="8" fill="{c}"/></svg>'
    yield ("S4", "siblings2"), doc(sib(5, "red") + sib(45, "blue"))
    yield ("S4", "siblings3"), doc(sib(5, "red") + sib(35, "blue", ' overflow="visible"') + sib(65, "green"))
    yield ("S4", "siblings-in-g"), doc(f'<g transform="translate(0,30)">{sib(5, "red")}{sib(45, "blue")}</g>' + sib(25, "green"))
    yield ("S4", "siblings-nested"), doc(f'<svg x="0" y="0" width="100" height="60" viewBox="0 0 100 60">{sib(5, "red")}{sib(45, "blue")}</svg>' + sib(60, "green"))
    # inner svg without width/height inside a nested svg whose viewBox differs from its viewport
    for par in ("xMidYMid meet", "none", "xMinYMax slice"):
        yield ("S4", "inner-default-size", par), doc(f'<svg x="10" y="5" width="80" height="45" viewBox="0 0 40 30" preserveAspectRatio="{par}"><rect width="40" height="30" fill="yellow"/><svg x="4" y="3" viewBox="0 0 10 10" preserveAspectRatio="xMaxYMin meet"><rect x="-2" y="2" width="14" height="5" fill="red"/><circle cx="9" cy="9" r="3" fill="blue"/></svg></svg>')
    if tier == "thorough":
        # two levels of nesting
        for par1, par2, ov in itertools.product(["xMinYMid slice", "xMaxYMin meet", "none"], ["xMidYMax meet", "xMinYMin slice"], (None, "visible")):
            o = f' overflow="{ov}"' if ov else ""
            inner = f'<svg x="5" y="5" width="30" height="20" viewBox="0 0 10 20" preserveAspectRatio="{par2}"{o}><rect x="-3" y="4" width="16" height="6" fill="red"/><circle cx="5" cy="15" r="7" fill="blue"/></svg>'
            yield ("S4", "nested2", par1, par2, ov), doc(f'<svg x="10" y="20" width="70" height="50" viewBox="0 0 40 40" preserveAspectRatio="{par1}"{o}><rect width="40" height="40" fill="yellow"/>{inner}</svg>')
        # SVG 2 transform attribute on a nested svg, only with overflow visible
        for t in TF4:
            yield ("S4", "svg-transform", t), doc(f'<svg x="10" y="10" width="50" height="40" viewBox="0 0 25 20" overflow="visible" transform="{t}"><rect x="2" y="3" width="18" height="9" fill="red"/></svg>')


# -- S5: magnitudes -------------------------------------------------------


def s5_docs(tier):
    """the same picture drawn in units of 10^k and scaled back by 10^-k: valid transforms whose determinant is tiny / huge"""

    def f(v, m):
        return f"{v * m:.10g}"

    ks = [-4, -3, -2, 2, 3, 4, 5, 6] if tier == "quick" else [-6, -5, -4, -3, -2, -1, 1, 2, 3, 4, 5, 6, 7]
    for k in ks:
        m = 10.0 ** k
        inv = f"{10.0 ** -k:.10g}"
        shapes = {
            "rect": f'<rect x="{f(30, m)}" y="{f(35, m)}" width="{f(25, m)}" height="{f(18, m)}" fill="red"/>',
            "poly": f'<polygon points="{f(30, m)},{f(30, m)} {f(58, m)},{f(36, m)} {f(41, m)},{f(55, m)}" fill="orange"/>',
            "curve": f'<path d="M{f(28, m)} {f(45, m)} C{f(32, m)} {f(20, m)} {f(52, m)} {f(20, m)} {f(56, m)} {f(45, m)} Z" fill="navy"/>',
            "circle": f'<circle cx="{f(45, m)}" cy="{f(42, m)}" r="{f(11.5, m)}" fill="blue"/>',
        }
        for name, sh in shapes.items():
            yield ("S5", name, f"g-scale-1e{-k}"), doc(f'<g transform="scale({inv})">{sh}</g>')
            yield ("S5", name, f"own-scale-1e{-k}"), doc(sh.replace("/>", f' transform="scale({inv})"/>'))
            if k % 2 == 0:
                h = f"{10.0 ** (-k // 2):.10g}"
                yield ("S5", name, f"two-scales-1e{-k}"), doc(f'<g transform="scale({h})"><g transform="scale({h})">{sh}</g></g>')
            # tiny scale undone by a descendant: nothing is small in the end
            yield ("S5", name, f"undone-1e{-k}"), doc(f'<g transform="scale({inv})"><g transform="scale({m:.10g})">{shapes[name].replace(f(30, m), "30") if False else SHAPES1["rect"].format(t="")}</g></g>')
            yield ("S5", name, f"nested-viewbox-1e{k}"), doc(f'<svg x="10" y="10" width="80" height="80" viewBox="0 0 {f(100, m)} {f(100, m)}">{sh}</svg>')
            yield ("S5", name, f"use-scale-1e{-k}"), doc(f'<use xlink:href="#t" transform="scale({inv})"/>', defs=sh.replace("<", '<', 1).replace(" fill=", ' id="t" fill=', 1))


def s6_docs(tier):
    """larger structures: many siblings / gradients / uses, long paths, chained relative subpaths with shorthand, deep nesting"""
    from mc.gen import big

    for label, d in big.all_docs(tier):
        yield ("S6", label, ""), d


def all_docs(tier):
    yield from s6_docs(tier)
    yield from s5_docs(tier)
    yield from s1_docs(tier)
    yield from s2_docs(tier)
    yield from s3_docs(tier)
    yield from s4_docs(tier)


def corpus_for_c07(tier, seed):
    for k, (key, d) in enumerate(all_docs("quick")):
        if tier == "thorough" or k % 5 == 0:
            yield d


def evaluate(case):
    key = case["key"]
    same_vb = key[0] == "S4" and len(key) > 2 and key[2] == "same"
    return RC.record(case["doc"], case["tier"], case["seed"], sig_extra={"family": key[0], "viewbox_equals_viewport": bool(same_vb)}, case_extra={"key": [str(k) for k in key]})


def cases(tier, seed):
    for key, d in all_docs(tier):
        yield {"key": list(key), "doc": d, "tier": tier, "seed": seed}


def run(run):
    run.rule = (
        "E2 + R3. S1: 12 shapes (7 basic shapes, 5 path variants) x transform lists of length 0-2 over 8 transforms, and 5 near-identity transforms (own, on a group, on a use); S2: ancestor chains of length <= 2 (quick) / 3 (+ depth 4 g-only) "
        "over 11 level kinds {g, g+transform x4, use x/y | transform | both, nested svg plain | viewBox meet | viewBox slice} x 3 leaves x own transform; S3: all arrangements "
        "of 2 (3) items from 8 (shapes, use instances of shared targets, groups) with display:none on each item, hidden use targets; S4: nested svg viewports: 3 boxes x 5 viewBoxes "
        "(incl. numerically equal to the element's own x y width height) x 20 preserveAspectRatio x overflow {absent, hidden, visible}, two-level nesting and SVG 2 transform (thorough); "
        "S6: 18 larger documents (300 siblings, 12+12 gradients, 5 uses of one target, 60-segment curve, 150-point polygon, 3-4 subpaths chained by relative movetos with H/V / s / t shorthand, 4 nested translucent groups, 6 nested transforms, clipPath with 10 children, 26-child wrapper); S5: 4 shapes drawn in units of 10^k (k in -4..6; thorough -6..7) and scaled back by group / own / two composed / use transforms or a nested-svg viewBox, and tiny scales undone by a descendant. "
        "Oracle: canonical paint stacks and composites of source vs output equal at every lattice/probe point outside the 0.4% band; output free of transform/use/svg (R4). "
        "Non-trivial = >= 30 compared points inside some layer and >= 30 outside all (distinct documents)."
    )
    run.cov["bounds"] = {"lattice": 24 if run.tier == "quick" else 40, "band": "0.4% of viewBox extent", "lattice_phase": run.seed % 8}
    run.assumptions = ["verdicts hold at the enumerated sample points only; curves flattened to band/20", "percentages/units and symbol viewports are outside the statement's grammar"]
    run.floor_nt = 300
    run.run_cases(MOD, cases(run.tier, run.seed), chunk=8)
    run.cov["compared_points"] = int(run.cnt.get("compared_points", 0))


def replay(case):
    rec = RC.record(case["doc"], "quick", 0)
    return rec["viol"]
