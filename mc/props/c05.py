"""C05 - every output path carries the paint and opacity the SVG cascade assigns.

E2, deviation-bounded: template trees (root > g1 > g2 > {A, overlapping B};
root > g1 > use > target{A, B}; root > {g1{A}, B}) with all placements of 0, 1, 2
(thorough: 3) property settings; a setting = (level, property, carrier, value).
Oracle R3: canonical paint stacks and composites equal; vanished content is
really absent from the output.
"""
import itertools

from mc import core
from mc.gen.docs import NS
from mc.props import render_common as RC
from mc.ref import picogrammar as R4

ID = "C05"
LEVEL = "exploration"
MOD = "mc.props.c05"

# A is self-overlapping (two nested same-direction squares: nonzero != evenodd), B overlaps A
A_GEOM = 'd="M15,15 H65 V65 H15 Z M28,28 H52 V52 H28 Z"'
B_GEOM = 'cx="62" cy="58" r="24"'

PROPVALS = {
    "fill": ["red", "black", "none", "blue"],
    "fill-opacity": ["0.5", "1", "0"],
    "opacity": ["0.5", "1", "0"],
    "display": ["none", "inline"],
    "fill-rule": ["evenodd", "nonzero"],
    "stroke": ["none", "green"],
}
BOTH = {"fill": ("blue", "red"), "opacity": ("1", "0.5"), "fill-opacity": ("0", "0.5")}  # (attribute value, style value): style wins

TEMPLATES = {
    "T1": ["root", "g1", "g2", "A", "B"],
    "T2": ["root", "g1", "use", "t", "A", "B"],  # t = the referenced group
    "T3": ["root", "g1", "A", "B", "C"],
    "T4": ["root", "use", "A", "B"],  # the referenced element is the shape A itself: <use> and A may set the same property
}


def settings_alphabet(levels, scope):
    out = []
    for lv in levels:
        for prop, vals in PROPVALS.items():
            for v in vals:
                for carrier in ("attr", "style"):
                    if scope == "small" and (carrier == "style" and prop in ("display", "fill-rule", "stroke")):
                        continue
                    out.append((lv, prop, carrier, v))
            if prop in BOTH:
                out.append((lv, prop, "both", BOTH[prop][1]))
    return out


# other legal spellings of a style attribute (CSS declaration list): empty declarations, blanks, a repeated property
# (the last one wins), a priority, comments, a vendor property in front
SPELLED = ("style-empty", "style-dup", "style-imp")
_WRONG = {"fill": "lime", "fill-opacity": "0.9", "opacity": "0.9", "display": "inline", "fill-rule": "nonzero", "stroke": "none"}


def attrs_for(level, settings):
    attr, style = {}, {}
    spell = None
    for lv, prop, carrier, v in settings:
        if lv != level:
            continue
        if carrier == "attr":
            attr[prop] = v
        elif carrier == "style":
            style[prop] = v
        elif carrier in SPELLED:
            style[prop] = v
            spell = carrier
        else:
            attr[prop] = BOTH[prop][0]
            style[prop] = v
    s = "".join(f' {k}="{v}"' for k, v in attr.items())
    if style and spell == "style-empty":
        s += ' style="; ' + " ;; ".join(f"{k} : {v}" for k, v in style.items()) + ' ; ;"'
    elif style and spell == "style-dup":
        s += ' style="' + ";".join(f"{k}:{_WRONG[k] if _WRONG[k] != v else 'none' if k in ('fill', 'display') else '0.1'};{k}:{v}" for k, v in style.items()) + '"'
    elif style and spell == "style-imp":
        s += ' style="-inkscape-stroke:none;/* note: x */' + ";".join(f"{k}:{v} !important /* {k} */" for k, v in style.items()) + '"'
    elif style:
        s += ' style="' + ";".join(f"{k}:{v}" for k, v in style.items()) + '"'
    return s


def document(tpl, settings):
    a = lambda lv: attrs_for(lv, settings)
    sw = ' stroke-width="6"'
    A = f'<path {A_GEOM}{sw}{a("A")}/>'  # no fill of its own: takes whatever the cascade gives it
    B = f'<circle {B_GEOM} fill="purple"{sw}{a("B")}/>' if not any(s[0] == "B" and s[1] == "fill" and s[2] in ("attr", "both") for s in settings) else f'<circle {B_GEOM}{sw}{a("B")}/>'
    if tpl == "T1":
        body = f'<g{a("g1")}><g{a("g2")}>{A}{B}</g></g>'
        defs = ""
    elif tpl == "T2":
        defs = f'<g id="t"{a("t")}>{A}{B}</g>'
        body = f'<g{a("g1")}><use xlink:href="#t" x="4" y="3"{a("use")}/></g>'
    elif tpl == "T4":
        defs = A.replace("<path ", '<path id="t" ', 1)
        body = f'<use xlink:href="#t" x="4" y="3"{a("use")}/>{B}'
    else:
        cfill = "" if any(s[0] == "C" and s[1] == "fill" and s[2] in ("attr", "both") for s in settings) else ' fill="teal"'
        C = f'<rect x="40" y="10" width="45" height="35"{cfill}{a("C")}/>'
        body = f'<g{a("g1")}>{A}{C}</g>{B}'
        defs = ""
    d = f"<defs>{defs}</defs>" if defs else ""
    return f'<svg {NS} viewBox="0 0 100 100"{a("root")}>{d}<rect x="5" y="40" width="90" height="30" fill="yellow"/>{body}</svg>'


def excluded(settings):
    """scope: a shape with visible fill and visible stroke under an opacity < 1 (own or pushed down)
    is rendered by picosvg as two translucent paths; the statement's sibling property (C04) excludes it."""
    stroke_on = any(p == "stroke" and v == "green" for _, p, _, v in settings)
    translucent = any(p == "opacity" and v == "0.5" for _, p, _, v in settings)
    return stroke_on and translucent


def valid_combo(combo):
    seen = set()
    for lv, prop, carrier, v in combo:
        if (lv, prop) in seen:
            return False
        seen.add((lv, prop))
    return True


def vanish_check(out):
    bad = []
    root = R4.parse_xml(out)
    for el in root.iter():
        if R4.split(el.tag)[1] != "path":
            continue
        if R4.prop(el, "display") == "none":
            bad.append("path with display:none survives")
        if (el.get("d") or "").strip() == "":
            bad.append("path with empty d survives")
        try:
            if float(R4.prop(el, "opacity") or 1) == 0:
                bad.append("path with opacity 0 survives")
        except ValueError:
            pass
        if R4.prop(el, "fill") == "none":
            bad.append("path with fill:none survives")
    return bad


def evaluate(case):
    tpl = case["tpl"]
    settings = [tuple(s) for s in case["settings"]]
    doc = document(tpl, settings)
    root_op = any(lv == "root" and p == "opacity" and v in ("0.5", "0") for lv, p, c, v in settings)
    rec = RC.record(doc, case["tier"], case["seed"], sig_extra={"family": tpl, "root_opacity": root_op, "nsettings": len(settings)}, case_extra={"tpl": tpl, "settings": [list(s) for s in settings]})
    if rec["out"] == "returned" and not rec["viol"]:
        o, out = RC.convert(doc)
        bad = vanish_check(out)
        if bad:
            rec["viol"].append({"sig": {"kind": "vanish", "family": tpl}, "case": {"fam": "doc", "doc": doc}, "detail": {"why": "; ".join(bad), "output": out[:2000]}})
    if not settings:
        rec["nt"] = None
    return rec


# values outside 0..1 are legal and mean 0 / 1 (SVG 1.1 painting: "any values outside the range 0.0 to 1.0 will be clamped"):
# the clamp has to happen BEFORE opacities are multiplied
OOR = {"opacity": ["1.5", "-0.5"], "fill-opacity": ["2", "-1"]}


def oor_cases(tier):
    for tpl, levels in TEMPLATES.items():
        if tier == "quick" and tpl == "T3":
            continue
        oor = [(lv, prop, carrier, v) for lv in levels for prop, vals in OOR.items() for v in vals for carrier in (("attr", "style") if tier == "thorough" or tpl == "T1" else ("attr",))]
        partners = [(lv, prop, "attr", v) for lv in levels for prop in OOR for v in ("0.5",)] + [s for s in oor if s[2] == "attr"]
        for s1 in oor:
            yield tpl, (s1,)
            for s2 in partners:
                combo = (s1, s2)
                if s1 < s2 and valid_combo(combo):
                    yield tpl, combo
                elif s2[3] == "0.5" and valid_combo(combo):
                    yield tpl, combo


def spelled_cases(tier):
    for tpl, levels in TEMPLATES.items():
        if tier == "quick" and tpl in ("T3",):
            continue
        spelled = [(lv, prop, c, v) for lv in levels for prop, vals in PROPVALS.items() for v in vals for c in SPELLED]
        partners = [(lv, prop, "attr", v) for lv in levels for prop, vals in PROPVALS.items() for v in vals if v not in ("inline", "nonzero", "1")]
        for s1 in spelled:
            yield tpl, (s1,)
        if tpl == "T1" or tier == "thorough":
            for s1 in spelled[:: 1 if tier == "thorough" else 2]:
                for s2 in partners[:: 1 if tier == "thorough" else 3]:
                    if valid_combo((s1, s2)) and not excluded((s1, s2)):
                        yield tpl, (s1, s2)


# opacities next to the ends of the range (round 7): 0.96 is not 1 and 0.04 is not 0 - a group carrying one must still be
# composited as a group, a shape carrying one is still (barely) visible
NEAR = {"opacity": ["0.96", "0.04", "0.999"], "fill-opacity": ["0.97", "0.03"]}


def near_cases(tier):
    for tpl, levels in TEMPLATES.items():
        near = [(lv, prop, carrier, v) for lv in levels for prop, vals in NEAR.items() for v in vals for carrier in (("attr", "style") if tier == "thorough" or tpl == "T1" else ("attr",))]
        for s1 in near:
            yield tpl, (s1,)
        if tpl == "T1" or tier == "thorough":
            for combo in itertools.combinations([s for s in near if s[2] == "attr"], 2):
                if valid_combo(combo) and not excluded(combo):
                    yield tpl, combo


def all_cases(tier):
    yield from oor_cases(tier)
    yield from near_cases(tier)
    yield from spelled_cases(tier)
    for tpl, levels in TEMPLATES.items():
        alpha = settings_alphabet(levels, "full" if tpl == "T1" else "small")
        yield tpl, ()
        for s in alpha:
            yield tpl, (s,)
        if tier == "quick":
            pair_alpha = alpha if tpl == "T1" else [s for s in alpha if s[2] == "attr" and s[3] not in ("inline", "nonzero", "1")]
            if tpl == "T1":
                pair_alpha = [s for s in alpha if not (s[2] == "style" and s[1] in ("display", "fill-rule", "stroke", "fill-opacity"))]
        else:
            pair_alpha = alpha
        for combo in itertools.combinations(pair_alpha, 2):
            if valid_combo(combo) and not excluded(combo):
                yield tpl, combo
        if tier == "thorough" and tpl == "T1":
            tri_alpha = [s for s in alpha if s[2] in ("attr", "both") and s[3] not in ("inline", "nonzero")]
            for combo in itertools.combinations(tri_alpha, 3):
                if valid_combo(combo) and not excluded(combo):
                    yield tpl, combo


def corpus_for_c07(tier, seed):
    for k, (tpl, combo) in enumerate(all_cases("quick")):
        if k % (11 if tier == "quick" else 3) == 0:
            yield document(tpl, combo)


def cases(tier, seed):
    for tpl, combo in all_cases(tier):
        if excluded(combo):
            continue
        yield {"tpl": tpl, "settings": [list(s) for s in combo], "tier": tier, "seed": seed}


def run(run):
    run.rule = (
        "E2 deviation-bounded + R3: templates T1 root>g1>g2>{A (self-overlapping path), B (overlapping circle)}, T2 root>g1>use>target group t{A,B}, T3 root>{g1{A,C},B}, T4 root>{use>A (the shape itself), B}; "
        "setting = (level, property in {fill, fill-opacity, opacity, display, fill-rule, stroke}, carrier in {attribute, style, both with different values, style written with empty declarations and blanks, style repeating the property (last wins), style with !important + comments + a vendor property}, value incl. explicit defaults "
        "and zero opacities); opacity / fill-opacity values outside 0..1 (1.5, -0.5, 2, -1) singly and paired with a second opacity setting at any level (the clamp precedes the product); opacity / fill-opacity values next to the ends of the range (0.96, 0.999, 0.04, 0.97, 0.03) singly at every level of every template and in pairs on T1; all documents with 0, 1, 2 settings (quick; reduced alphabets for pairs on T2/T3), 3 settings on T1 (thorough). Excluded by scope: visible stroke together with an "
        "opacity 0.5 setting. Oracle: canonical stacks and composites equal outside the band; vanished content absent (no display:none / fill:none / opacity 0 / empty path in the output). "
        "Non-trivial = document with >= 1 setting and >= 30 inside / >= 30 outside compared points."
    )
    run.assumptions = ["'inherit' keyword and currentColor are excluded by the statement; colours come from a small alphabet"]
    run.floor_nt = 300
    run.run_cases(MOD, cases(run.tier, run.seed), chunk=16)
    run.cov["compared_points"] = int(run.cnt.get("compared_points", 0))


def replay(case):
    if "tpl" in case:
        return evaluate({"tpl": case["tpl"], "settings": case["settings"], "tier": "quick", "seed": 0})["viol"]
    return RC.record(case["doc"], "quick", 0)["viol"]
