"""C16 - output bytes depend only on input bytes and options.

Part A (configurations): every document of a corpus is converted alone in a
fresh interpreter (solo table, PYTHONHASHSEED=0); then, for every hash seed of
a set, one fresh interpreter converts the whole corpus; plus the CLI.
Part B (histories, E1 on the Python process): state = the process, canon =
digest over all mutable module-level state of picosvg.*; action = convert(d_i);
the explorer positions a fresh fork of a pristine parent at a state by
replaying its history and forks one child per action.  Every ordered pair of
documents is run concretely; deeper levels are explored with canon dedup until
the state set closes.  Oracle on every transition: output hash == solo table.
"""
import collections
import glob
import hashlib
import itertools
import json
import os
import select
import subprocess
import sys
import tempfile
import time

from mc import core
from mc.gen import docs as G

ID = "C16"
LEVEL = "model_checking"
MOD = "mc.props.c16"

ATTR_HEAVY = [
    '<svg xmlns="http://www.w3.org/2000/svg" viewBox="0 0 100 100" fill="red" stroke="blue" stroke-width="2" stroke-linecap="round" stroke-linejoin="bevel" stroke-miterlimit="3" stroke-dasharray="3 1" stroke-dashoffset="1" fill-rule="evenodd" clip-rule="evenodd" fill-opacity=".9" stroke-opacity=".8" color="green" display="inline">'
    '<g fill="green" stroke-width="1" opacity=".5" style="stroke-linecap:square;fill-opacity:.5"><g stroke="none" style="fill:yellow;stroke-dasharray:none"><rect id="a" x="1" y="1" width="30" height="30"/><circle id="b" cx="30" cy="30" r="15" style="fill:purple;opacity:.7"/></g><path id="c" d="M40,40 h30 v30 h-30 z M50,50 h10 v10 h-10 z"/></g>'
    '<rect id="d" x="60" y="5" width="30" height="20" stroke-dasharray="none" data-name="x" enable-background="new"/></svg>',
    '<svg xmlns="http://www.w3.org/2000/svg" xmlns:xlink="http://www.w3.org/1999/xlink" viewBox="0 0 100 100"><defs>'
    + "".join(
        f'<linearGradient id="g{i}" x1="0" y1="0" x2="1" y2="{i % 2}" gradientTransform="rotate({i * 7})"><stop offset="0" style="stop-color:#f00;stop-opacity:.{i + 1}"/><stop offset=".5" stop-color="#0f0"/><stop offset="1" style="stop-color:#00f"/></linearGradient>'
        for i in range(6)
    )
    + "".join(f'<clipPath id="c{i}"><rect x="{i * 5}" y="{i * 3}" width="60" height="60"/><circle cx="70" cy="70" r="{10 + i}"/></clipPath>' for i in range(4))
    + "</defs>"
    + "".join(f'<rect id="r{i}" x="{i * 9}" y="{i * 7}" width="40" height="35" fill="url(#g{i % 6})" clip-path="url(#c{i % 4})" transform="translate({i} {i * 2})"/>' for i in range(9))
    + '<use xlink:href="#r3" x="5"/><use xlink:href="#r4" y="5" opacity=".5"/></svg>',
]


# style attributes with blank pairs and verbatim repeats (on elements whose attribute order reaches the output: stops, text, root)
STYLE_DOCS = [
    '<svg xmlns="http://www.w3.org/2000/svg" viewBox="0 0 100 100" style="fill:navy;;stroke:none;;fill-opacity:.9;"><defs><linearGradient id="g" x2="1"><stop offset="0" style="stop-color:#f00;;stop-opacity:.5;;"/>'
    '<stop offset="1" style="stop-opacity:.25;stop-color:#00f;stop-opacity:.25"/></linearGradient></defs><rect x="5" y="5" width="50" height="40" style="fill:url(#g);;opacity:.5;;"/>'
    '<rect x="30" y="50" width="40" height="30" style="fill:red;fill:blue;fill:red;stroke:none;;"/><circle cx="70" cy="30" r="12" style="opacity:.5;fill:lime;opacity:.5"/></svg>',
]

TEXT_DOCS = [
    '<svg xmlns="http://www.w3.org/2000/svg" viewBox="0 0 100 100" fill="red" stroke="blue" stroke-width="2" fill-opacity=".5" stroke-linejoin="round" stroke-miterlimit="3" clip-rule="evenodd" fill-rule="evenodd">'
    '<g fill="green" stroke-linecap="round" stroke-opacity=".25" style="stroke-dasharray:3 1;stroke-dashoffset:2"><text x="5" y="20" opacity=".5">hi <tspan dy="5" fill="black">there</tspan></text>'
    '<rect x="10" y="30" width="20" height="20"/></g><text x="5" y="80" transform="rotate(5)">plain<tspan>b</tspan></text></svg>',
    '<svg xmlns="http://www.w3.org/2000/svg" viewBox="0 0 50 50" style="fill:navy;stroke:none;fill-opacity:.9"><g stroke="red" stroke-width="3" stroke-dasharray="1 2" display="inline" color="teal"><g fill-rule="evenodd" stroke-linecap="square">'
    '<text x="1" y="10">a</text><text x="1" y="20" clip-path="none">b</text></g></g><circle cx="25" cy="25" r="10"/></svg>',
]


# documents whose conversion RAISES part-way (state touched before the failure must not leak into later
# conversions); they use the same ids as the generated documents (c0, lg0, t0, ...)
_NSX = G.NS
RAISING_DOCS = [
    f'<svg {_NSX} viewBox="0 0 100 100"><defs><clipPath id="c0"><rect width="5px" height="4e38"/></clipPath></defs><rect x="30" y="30" width="40" height="40" fill="aqua" clip-path="url(#c0)"/></svg>',
    f'<svg {_NSX} viewBox="0 0 100 100"><defs><clipPath id="c0" clip-path="url(#c1)"><circle cx="45" cy="45" r="20"/></clipPath><clipPath id="c1"><rect width="bogus" height="10"/></clipPath></defs><rect x="30" y="30" width="40" height="40" clip-path="url(#c0)"/></svg>',
    f'<svg {_NSX} viewBox="0 0 100 100"><defs><rect id="t0" width="14" height="9"/><g id="t1"><use xlink:href="#t1"/></g></defs><use xlink:href="#t0" x="3"/><use xlink:href="#t1"/></svg>',
    f'<svg {_NSX} viewBox="0 0 100 100"><defs><linearGradient id="lg0" x1="zero" x2="1"><stop offset="0" stop-color="red"/></linearGradient></defs><rect x="15" y="65" width="50" height="25" fill="url(#lg0)" transform="translate(1 2)"/></svg>',
    f'<svg {_NSX} viewBox="0 0 100 100"><rect width="10" height="10"/><path d="M0,0 L10,10 L5 X" fill="red"/></svg>',
    f'<svg {_NSX} viewBox="0 0 100 100"><rect width="10" height="10" fill="url(#lg0)" transform="scale(2)"/></svg>',
    f'<svg {_NSX} viewBox="0 0 100 100"><g opacity=".5"><rect width="10" height="10"/><filter id="f0"/></g><rect width="10" height="10" clip-path="url(#c0)"/></svg>',
    f'<svg {_NSX} viewBox="0 0 100 100"><svg width="50" height="50" viewBox="0 0 0 10"><rect width="10" height="10"/></svg><svg x="5" width="20" height="20"><rect width="30" height="30"/></svg></svg>',
    # failures INSIDE the resolution of a clipPath / gradient template / use / nested svg / stroke (after the step has begun)
    f'<svg {_NSX} viewBox="0 0 100 100"><defs><clipPath id="c0"><text>hi</text></clipPath></defs><rect width="40" height="40" clip-path="url(#c0)"/></svg>',
    f'<svg {_NSX} viewBox="0 0 100 100"><defs><clipPath id="c0"/></defs><rect width="40" height="40" clip-path="url(#c0)"/></svg>',
    f'<svg {_NSX} viewBox="0 0 100 100"><defs><clipPath id="c0" clip-path="url(#zz)"><rect width="5" height="5"/></clipPath></defs><rect width="40" height="40" clip-path="url(#c0)"/></svg>',
    f'<svg {_NSX} viewBox="0 0 100 100"><defs><clipPath id="c0"><g><rect width="5" height="5"/></g></clipPath></defs><rect width="40" height="40" clip-path="url(#c0)"/></svg>',
    f'<svg {_NSX} viewBox="0 0 100 100"><defs><linearGradient id="lg0" xlink:href="#zz"/><linearGradient id="hg0" xlink:href="#lg0"/></defs><rect x="15" y="65" width="50" height="25" fill="url(#hg0)"/></svg>',
    f'<svg {_NSX} viewBox="0 0 100 100"><defs><linearGradient id="tp0"><stop offset="0"/></linearGradient><linearGradient id="hg0" xlink:href="#tp0" gradientTransform="bogus(3)"/></defs><ellipse cx="50" cy="20" rx="30" ry="10" fill="url(#hg0)"/></svg>',
    f'<svg {_NSX} viewBox="0 0 100 100"><defs><g id="t0"><rect width="8" height="8"/><use xlink:href="#zz"/></g></defs><use xlink:href="#t0" x="5" y="70"/></svg>',
    f'<svg {_NSX} viewBox="0 0 100 100"><svg x="10" y="10" width="40" height="30" viewBox="0 0 80"><rect width="70" height="40"/></svg></svg>',
    f'<svg {_NSX} viewBox="0 0 100 100"><rect x="5" y="5" width="20" height="20" stroke="black" stroke-dasharray="3 x"/></svg>',
]
# href gradients WITH stops of their own, templates before / after their users (ids g, t, t1, t2 as in C06's documents)
TEMPLATE_DOCS = []


def corpus(tier):
    docs = []
    for k in G.kinds("base"):
        if not G.has_unsupported([k]):
            docs.append(G.document([k]))
    for k in ["gop:rect+circle", "gop:stroked+lingrad", "gxf:rect+lingrad", "gclip:circle+lingrad", "gfill:rect+stroked", "gopxf:lingrad+circle"]:
        docs.append(G.document([k], "fill"))
    docs += ATTR_HEAVY
    docs += STYLE_DOCS
    from mc.gen import big

    docs += [big.clip_many_children(10)[1], big.many_gradients(12, True)[1], big.many_uses(5)[1], big.nested_opacity(4)[1]]
    from mc.props import c06

    for k in (("linear", "numbers", "userSpaceOnUse", "rotate", "pad", "attrs", "none", "rect", "none"), ("radial", "numbers", "objectBoundingBox", "none", "reflect", "chain3own", "fxfy", "circle", "translate"),
              ("linear", "numbers", "objectBoundingBox", "matrix", "pad", "partial-after", "none", "rect", "none"), ("linear", "defaults", "userSpaceOnUse", "translate", "repeat", "chain-rev", "none", "path", "groupmatrix"),
              ("radial", "percent", "userSpaceOnUse", "scaletr", "pad", "stops", "fr", "rect", "rotscale")):
        docs.append(c06.document(*k))
    docs.append(c06.shared_document("linear", "numbers", "objectBoundingBox", "rotate", "rect+circle", "translate", "matrix", "group-b"))
    from mc.props import c08, c15

    docs += list(c15.ROOTS.values())
    for setup in c08.SETUPS:
        docs.append(c08.document(setup, "grad:g_0", (("xf", "g"), ("stroked", "h"), ("use2", "g")), True, True, "s"))
        docs.append(c08.document(setup, "shape:g_0+g_1", (("xf2", "h"), ("vis", "g"), ("gstroke", "h")), False, True, ""))
    if tier == "thorough":
        base = [k for k in G.kinds("base") if not G.has_unsupported([k])]
        for a, b in itertools.product(base[::3], base[1::3]):
            docs.append(G.document([a, b]))
    files = sorted(glob.glob(os.environ.get("VERIF_REPO", "/repo") + "/tests/*.svg"))
    for f in files:
        n = os.path.basename(f)
        if n.startswith("bad-"):
            continue
        s = open(f).read()
        if tier == "quick" and (len(s) > 4000 or "-nano" in n):
            continue
        docs.append(s)
    # unique, order preserved; every entry is [document, options]
    seen, out = set(), []
    for d in docs:
        if d not in seen:
            seen.add(d)
            out.append([d, {}])
    # the options are part of the function's input: text pass-through and dropping of unsupported elements
    out.append(['<svg xmlns="http://www.w3.org/2000/svg" viewBox="0 0 100 100"><g style="fill:red;;stroke:blue;;stroke-width:2;;"><text x="5" y="20" style="opacity:.5;font-size:10px;opacity:.5;;fill:green;">hi<tspan style="fill:black;;fill-opacity:.5;;">x</tspan></text><rect x="1" y="30" width="9" height="9"/></g></svg>', {"allow_text": True}])
    for d in TEXT_DOCS:
        out.append([d, {"allow_text": True}])
        out.append([d, {"allow_text": True, "drop_unsupported": True}])
    for k in ("image", "mask", "filter", "a", "gop:rect+image", "Ngop.gop.unsup.after"):
        out.append([G.document([k, "lingrad"], "stroke"), {"drop_unsupported": True}])
    # ndigits is part of the input too: the same gradient / opacity documents at other precisions (also beyond 6), converted
    # BEFORE their default-precision twins in the whole-corpus runs
    from mc.props import c06 as _c06

    nd_docs = [_c06.document("linear", "numbers", "userSpaceOnUse", "rotate", "pad", "none", "none", "rect", "rotscale"), _c06.document("radial", "numbers", "objectBoundingBox", "matrix", "pad", "none", "fxfy", "circle", "translate"), G.document(["gop:rect+circle", "xformed"], "opacity")]
    nd = []
    for d in nd_docs:
        for n in (9, 0, 1, 6):
            nd.append([d, {"ndigits": n}])
    out = nd + out + [[d, {}] for d in nd_docs if [d, {}] not in out]
    # failing conversions come first: in the whole-corpus runs of part A everything else is converted after them
    out = [[d, {}] for d in RAISING_DOCS] + out
    return out


SCRIPT = r"""
import sys, json, hashlib
import os
sys.path.insert(0, os.environ.get('VERIF_REPO', '/repo') + '/src')
from picosvg.svg import SVG
docs = json.load(open(sys.argv[1]))
idx = json.loads(sys.argv[2])
out = {}
for i in idx:
    try:
        o = SVG.fromstring(docs[i][0]).topicosvg(**docs[i][1]).tostring()
        out[i] = hashlib.sha256(o.encode()).hexdigest()
    except Exception as e:
        out[i] = 'EXC:' + type(e).__name__
print(json.dumps(out))
"""


def _subproc(args):
    path, idx, seed = args
    env = dict(os.environ)
    env["PYTHONHASHSEED"] = str(seed)
    env["PYTHONPATH"] = os.environ.get("VERIF_REPO", "/repo") + "/src"
    p = subprocess.run([sys.executable, "-c", SCRIPT, path, json.dumps(idx)], stdout=subprocess.PIPE, stderr=subprocess.PIPE, text=True, env=env, timeout=1200)
    if p.returncode != 0:
        return {"error": p.stderr[-500:]}
    return {int(k): v for k, v in json.loads(p.stdout.strip().splitlines()[-1]).items()}


def _cli(args):
    (doc, opts), seed = args
    env = dict(os.environ)
    env["PYTHONHASHSEED"] = str(seed)
    env["PYTHONPATH"] = os.environ.get("VERIF_REPO", "/repo") + "/src"
    with tempfile.TemporaryDirectory() as td:
        f = os.path.join(td, "in.svg")
        open(f, "w").write(doc)
        flags = [f"--{k}" for k, v in opts.items() if v]
        p = subprocess.run([sys.executable, "-m", "picosvg.picosvg", f] + flags, stdout=subprocess.PIPE, stderr=subprocess.PIPE, text=True, env=env, timeout=300)
    if p.returncode != 0:
        return "EXC"
    return hashlib.sha256(p.stdout.encode()).hexdigest()


# ---------------------------------------------------------------------------
# process digest


def process_canon():
    import functools
    import re
    import types

    h = hashlib.sha256()
    visited = set()
    keep = []  # keeps temporaries alive so that id() values are not recycled during the walk

    def w(s):
        h.update(s.encode("utf-8", "replace"))
        h.update(b"\0")

    def walk(o, depth=0):
        if depth > 12:
            w("<deep>")
            return
        if o is None or isinstance(o, (bool, int, float, complex, str, bytes)):
            w(type(o).__name__ + ":" + repr(o))
            return
        if isinstance(o, types.ModuleType):
            w("module:" + o.__name__)
            return
        if isinstance(o, functools._lru_cache_wrapper):
            w("lru:" + getattr(o, "__qualname__", "?") + ":" + str(o.cache_info().currsize))
            return
        if isinstance(o, re.Pattern):
            w("re:" + repr(o.pattern) + str(o.flags))
            return
        oid = id(o)
        keep.append(o)
        if oid in visited:
            w("<seen>")
            return
        if isinstance(o, (types.FunctionType,)):
            visited.add(oid)
            w("fn:" + o.__qualname__)
            walk(o.__defaults__, depth + 1)
            walk(o.__kwdefaults__, depth + 1)
            if o.__closure__:
                for c in o.__closure__:
                    try:
                        walk(c.cell_contents, depth + 1)
                    except ValueError:
                        w("<emptycell>")
            walk(dict(o.__dict__), depth + 1)
            return
        if isinstance(o, (types.BuiltinFunctionType, types.MethodDescriptorType, types.WrapperDescriptorType, types.MemberDescriptorType, types.GetSetDescriptorType, types.MethodWrapperType)):
            w("builtin:" + getattr(o, "__qualname__", repr(type(o))))
            return
        if isinstance(o, (staticmethod, classmethod)):
            walk(o.__func__, depth + 1)
            return
        if isinstance(o, property):
            walk(o.fget, depth + 1)
            return
        if isinstance(o, functools.partial):
            w("partial")
            walk(o.func, depth + 1)
            walk(o.args, depth + 1)
            walk(o.keywords, depth + 1)
            return
        if isinstance(o, type):
            visited.add(oid)
            w("class:" + o.__module__ + "." + o.__qualname__)
            if o.__module__.startswith("picosvg"):
                for k in sorted(vars(o)):
                    if k in ("__dict__", "__weakref__", "__doc__", "__module__"):
                        continue
                    w("attr:" + k)
                    walk(vars(o)[k], depth + 1)
            return
        if isinstance(o, (types.MappingProxyType, dict)):
            visited.add(oid)
            w("dict:%d" % len(o))
            for k in sorted(o, key=repr):
                w("k:" + repr(k))
                walk(o[k], depth + 1)
            return
        if isinstance(o, (set, frozenset)):
            w("set:%d" % len(o))
            for k in sorted(o, key=repr):
                walk(k, depth + 1)
            return
        if isinstance(o, (list, tuple, collections.deque)):
            visited.add(oid)
            w(type(o).__name__ + ":%d" % len(o))
            for k in o:
                walk(k, depth + 1)
            return
        visited.add(oid)
        w("obj:" + type(o).__module__ + "." + type(o).__qualname__)
        d = getattr(o, "__dict__", None)
        if isinstance(d, dict) and type(o).__module__.startswith("picosvg"):
            walk(d, depth + 1)
        else:
            try:
                r = repr(o)
            except Exception:
                r = "?"
            if " at 0x" not in r:
                w(r)

    for name in sorted(sys.modules):
        if name == "picosvg" or name.startswith("picosvg."):
            m = sys.modules[name]
            w("MODULE " + name)
            for k in sorted(vars(m)):
                if k.startswith("__") and k.endswith("__"):
                    continue
                w("global:" + k)
                walk(vars(m)[k])
    return h.hexdigest()[:20]


def _convert_hash(item):
    from picosvg.svg import SVG

    doc, opts = item
    try:
        o = SVG.fromstring(doc).topicosvg(**opts).tostring()
        return hashlib.sha256(o.encode()).hexdigest()
    except Exception as e:  # noqa
        return "EXC:" + type(e).__name__


# fork scheduler: every task runs in a fresh fork of the (pristine) parent


def run_forked(tasks, fn, nproc):
    """tasks: list; fn(task) -> JSON-able.  Yields (task, result)."""
    pending = {}
    it = iter(tasks)
    done = False
    while True:
        while not done and len(pending) < nproc:
            t = next(it, None)
            if t is None:
                done = True
                break
            r, wfd = os.pipe()
            pid = os.fork()
            if pid == 0:
                os.close(r)
                try:
                    res = fn(t)
                    data = json.dumps(res).encode()
                except BaseException as e:  # noqa
                    data = json.dumps({"child_error": f"{type(e).__name__}: {e}"}).encode()
                with os.fdopen(wfd, "wb") as f:
                    f.write(data)
                os._exit(0)
            os.close(wfd)
            pending[r] = (pid, t, b"")
        if not pending:
            break
        rl, _, _ = select.select(list(pending), [], [], 60)
        for fd in rl:
            pid, t, buf = pending[fd]
            chunk = os.read(fd, 1 << 16)
            if chunk:
                pending[fd] = (pid, t, buf + chunk)
            else:
                os.close(fd)
                os.waitpid(pid, 0)
                del pending[fd]
                yield t, json.loads(buf.decode() or '{"child_error": "no output"}')


_DOCS = []


def _expand_state(task):
    """In a fresh fork: replay history, then fork one grandchild per action."""
    hist, actions = task
    for i in hist:
        _convert_hash(_DOCS[i])
    pre = process_canon()
    out = []
    for a in actions:
        r, wfd = os.pipe()
        pid = os.fork()
        if pid == 0:
            os.close(r)
            hsh = _convert_hash(_DOCS[a])
            post = process_canon()
            with os.fdopen(wfd, "wb") as f:
                f.write(json.dumps([a, hsh, post]).encode())
            os._exit(0)
        os.close(wfd)
        buf = b""
        while True:
            c = os.read(r, 1 << 16)
            if not c:
                break
            buf += c
        os.close(r)
        os.waitpid(pid, 0)
        out.append(json.loads(buf.decode()))
    return {"pre": pre, "res": out}


def _batch(task):
    order = task
    return [[i, _convert_hash(_DOCS[i])] for i in order]


def run(run):
    import picosvg.svg, picosvg.svg_reuse, picosvg.picosvg  # noqa: pristine parent has everything imported

    global _DOCS
    docs = corpus(run.tier)
    _DOCS = docs
    seeds = [0, 1, 7, 1234] if run.tier == "quick" else [0, 1, 2, 3, 7, 42, 1234, 99999, 2**32 - 1, 314159, 271828, 5, 11, 13, 17, 65537]
    run.rule = (
        f"Part A: corpus of {len(docs)} documents (the first {len(RAISING_DOCS)} are documents whose conversion raises part-way - in clip, use, gradient, path-data and validation code - and share ids with later ones); solo table = each document alone in a fresh interpreter (PYTHONHASHSEED=0); one fresh interpreter per seed in {seeds} "
        "converts the whole corpus; CLI on 20 documents x 4 seeds. Part B: E1 over the Python process: canon = sha256 over a structural walk of all globals of picosvg.* "
        "(class dicts, function defaults/closures, lru_cache sizes, regexes); action = convert(d_i) incl. the raising documents; fresh fork per state, one fork per action; all ordered pairs concretely, "
        "then canon-deduplicated BFS until the state set closes; all 24 permutations of six 4-document batches. Oracle: output sha256 == solo table on every transition."
    )
    violations = 0
    with tempfile.TemporaryDirectory() as td:
        path = os.path.join(td, "docs.json")
        json.dump(docs, open(path, "w"))
        # solo table
        solo = {}
        for res in core.pmap(_subproc, [(path, [i], 0) for i in range(len(docs))], chunksize=1):
            if "error" in res:
                run.add_violation({"kind": "harness-subprocess"}, {}, {"why": res["error"]})
                continue
            solo.update(res)
        run.log(f"solo table: {len(solo)} documents, {sum(1 for v in solo.values() if v.startswith('EXC'))} rejected")
        trans = len(solo)
        # Part A: seeds
        for seed, res in zip(seeds, core.pmap(_subproc, [(path, list(range(len(docs))), s) for s in seeds], chunksize=1)):
            if "error" in res:
                run.add_violation({"kind": "harness-subprocess"}, {}, {"why": res["error"]})
                continue
            for i, hsh in res.items():
                trans += 1
                if hsh != solo.get(i):
                    run.add_violation(
                        {"kind": "hash-seed-or-batch", "seed": seed},
                        {"fam": "seed", "doc": docs[i][0], "opts": docs[i][1], "seed": seed},
                        {"why": f"document #{i} converted in a long-lived process with PYTHONHASHSEED={seed} after documents 0..{i-1}: {hsh[:12]} != solo {str(solo.get(i))[:12]}"},
                    )
        run.log(f"part A seeds done: {len(seeds)} processes")
        # CLI
        ok_docs = [d for i, d in enumerate(docs) if not str(solo.get(i, "EXC")).startswith("EXC")]
        cli_docs = [d for d in ok_docs if not d[1]][:16] + [d for d in ok_docs if d[1] and "ndigits" not in d[1]][:6]
        cli_seeds = seeds[:4]
        jobs = [(d, s) for d in cli_docs for s in cli_seeds]
        res = list(core.pmap(_cli, jobs, chunksize=1))
        for k, d in enumerate(cli_docs):
            hs = {res[k * len(cli_seeds) + j] for j in range(len(cli_seeds))}
            trans += len(cli_seeds)
            if len(hs) != 1:
                run.add_violation({"kind": "cli-seed"}, {"fam": "cli", "doc": d[0], "opts": d[1]}, {"why": f"CLI output differs across hash seeds {cli_seeds}"})
    # Part B
    alpha = list(range(len(docs)))
    if run.tier == "quick":
        okidx = [i for i in alpha if not str(solo.get(i, "EXC")).startswith("EXC")]
        raising = [i for i in alpha if str(solo.get(i, "EXC")).startswith("EXC")]
        alpha = raising[:24] + okidx[:34] + [i for i in okidx if docs[i][1] and "ndigits" not in docs[i][1]][:8]
    n_states = 0
    canons = {}
    t0 = time.time()
    # level 0 and 1 concretely: all ordered pairs
    tasks = [((), alpha)] + [((a,), alpha) for a in alpha]
    frontier = []
    samples = []
    for (hist, acts), res in run_forked(tasks, _expand_state, core.NPROC):
        if "child_error" in res:
            run.add_violation({"kind": "harness-fork"}, {}, {"why": res["child_error"]})
            continue
        canons.setdefault(res["pre"], hist)
        for a, hsh, post in res["res"]:
            trans += 1
            if hsh != solo.get(a):
                run.add_violation(
                    {"kind": "history-dependence"},
                    {"fam": "hist", "hist_docs": [docs[i] for i in hist], "doc": docs[a]},
                    {"why": f"document #{a} converted after history {list(hist)} gives {hsh[:12]}, alone {str(solo.get(a))[:12]}"},
                )
            if post not in canons:
                canons[post] = hist + (a,)
                if len(hist) >= 1:
                    frontier.append(hist + (a,))
            elif len(hist) == 0 and canons[post] in frontier:
                frontier.remove(canons[post])  # reached at depth 1 as well: expanded by the pair runs already
                canons[post] = (a,)
        if len(samples) < 3 and hist:
            samples.append({"history": [docs[i][0][:200] for i in hist], "then": "every document of the alphabet, one fork each"})
    run.log(f"part B pairs done: states={len(canons)} t={time.time()-t0:.1f}s frontier={len(frontier)}")
    depth = 2
    closed = not frontier
    max_depth = 8 if run.tier == "quick" else 12
    t_cap = time.time() + (45 if run.tier == "quick" else 600)
    while frontier and depth < max_depth and time.time() < t_cap:
        tasks = [(h, alpha) for h in frontier]
        frontier = []
        for (hist, acts), res in run_forked(tasks, _expand_state, core.NPROC):
            if "child_error" in res:
                continue
            for a, hsh, post in res["res"]:
                trans += 1
                if hsh != solo.get(a):
                    run.add_violation({"kind": "history-dependence"}, {"fam": "hist", "hist_docs": [docs[i] for i in hist], "doc": docs[a]}, {"why": f"document #{a} after history {list(hist)}: {hsh[:12]} != solo {str(solo.get(a))[:12]}"})
                if post not in canons:
                    canons[post] = hist + (a,)
                    frontier.append(hist + (a,))
        depth += 1
        closed = not frontier
    # permutations of 4-document batches
    ok = [i for i in alpha if not str(solo.get(i, "EXC")).startswith("EXC")]
    batches = [ok[k::6][:4] for k in range(6)]
    perm_tasks = [list(p) for b in batches if len(b) == 4 for p in itertools.permutations(b)]
    for order, res in run_forked(perm_tasks, _batch, core.NPROC):
        if isinstance(res, dict):
            continue
        for i, hsh in res:
            trans += 1
            if hsh != solo.get(i):
                run.add_violation({"kind": "batch-order"}, {"fam": "perm", "order_docs": [docs[j] for j in order], "doc": docs[i]}, {"why": f"document #{i} in batch order {order}: {hsh[:12]} != solo {str(solo.get(i))[:12]}"})
    run.evaluations = trans
    run.cov["states"] = len(canons)
    run.cov["transitions"] = trans
    run.cov["traces_validated_against_impl"] = trans
    run.cov["process_state_graph_closed"] = bool(closed)
    run.cov["bfs_depth"] = depth
    run.cov["corpus"] = len(docs)
    run.cov["alphabet"] = len(alpha)
    run.cov["seeds"] = seeds
    run.cov["permutation_runs"] = len(perm_tasks)
    run.cov["explanation"] = "every transition is a real conversion in a real process; fork is the state snapshot"
    for i, v in solo.items():
        if not v.startswith("EXC"):
            run.nt.add(core.h64(json.dumps(docs[i])))
    run.samples = samples or [{"doc": docs[0][0][:300]}]
    run.exhaustive = bool(closed)
    run.assumptions = [
        "state hidden inside C extensions (lxml's global dictionaries, Skia) is not part of the process digest; Part A and the permutation runs are the only evidence about it",
        "lru_cache wrappers are represented by their current size only (hit/miss counters are monotone and unobservable)",
    ]
    run.floor_nt = 20


def replay(case):
    import picosvg.svg  # noqa

    fam = case.get("fam")
    if fam == "hist":
        global _DOCS
        _DOCS = case["hist_docs"] + [case["doc"]]
        res = list(run_forked([((), [len(_DOCS) - 1]), (tuple(range(len(_DOCS) - 1)), [len(_DOCS) - 1])], _expand_state, 2))
        hs = {r["res"][0][1] for _, r in res}
        if len(hs) != 1:
            return [{"sig": {"kind": "history-dependence"}, "case": case, "detail": {"why": f"output differs: {hs}"}}]
        return []
    if fam in ("seed", "cli"):
        with tempfile.TemporaryDirectory() as td:
            path = os.path.join(td, "docs.json")
            json.dump([[case["doc"], case.get("opts", {})]], open(path, "w"))
            hs = {json.dumps(_subproc((path, [0], s))) for s in (0, case.get("seed", 1), 7, 1234)}
        if len(hs) != 1:
            return [{"sig": {"kind": "hash-seed-or-batch"}, "case": case, "detail": {"why": f"output differs across hash seeds: {hs}"}}]
        return []
    return []
