"""C12 - arc -> cubic conversion tracks the true elliptical arc.

E2: product lattice over (start, rx, ry, rotation, flags, end) including zero /
negative / tiny / huge radii, rotations beyond a full turn, coincident end
points and the boundary families where the radii exactly or barely fit the
chord.  Oracle: centre parametrisation computed independently from SVG
implementation notes F.6.5 / F.6.6 (mc/ref/pathdata.py).
"""
import collections
import itertools
import math

from mc import core
from mc.ref import pathdata as R1

ID = "C12"
LEVEL = "exploration"
MOD = "mc.props.c12"

RADII = [0, -3, 1e-3, 1, 3, 10, 1e3]
RADII_T = [0, -3, -0.5, 1e-4, 1e-3, 0.25, 1, 3, 7.5, 10, 100, 1e3]
ROTS_T = [0, 1e-3, 15, 30, 45, 60, 89.999, 90, 120, 135, 180, 225, 270, 315, 360, 400, 720.5, -30, -90, -359]
ROTS = [0, 30, 45, 90, 135, 180, 270, 360, 400, -30]
FLAGS = [(0, 0), (0, 1), (1, 0), (1, 1)]
RADIAL_TOL = 3e-4


def ends(tier, seed):
    if tier == "quick":
        v = [-7.5, -4.75, -2.25, 0, 0.875, 3.5, 9.25]
    else:
        v = [-9.5, -7.5, -4.75, -2.25, -0.5, 0, 0.875, 3.5, 5.125, 9.25, 12.0]
    off = (seed % 4) * 0.0625
    return [(x + (off if x else 0), y - (off if y else 0)) for x in v for y in v]


def cubic_pt(p0, c1, c2, p1, t):
    u = 1 - t
    a, b, c, d = u * u * u, 3 * u * u * t, 3 * u * t * t, t * t * t
    return (a * p0[0] + b * c1[0] + c * c2[0] + d * p1[0], a * p0[1] + b * c1[1] + c * c2[1] + d * p1[1])


def judge(start, rx, ry, rot, large, sweep, end, arc_to_cubic):
    """-> (outcome, why or None, ntkey or None)"""
    try:
        segs = list(arc_to_cubic(start, rx, ry, rot, large, sweep, end))
    except Exception as e:  # noqa
        return "raised:" + type(e).__name__, f"raised {type(e).__name__}: {e}", None
    if tuple(start) == tuple(end):
        if segs:
            return "coincident", f"coincident end points must give no segment, got {segs!r}", None
        return "coincident", None, None
    if rx == 0 or ry == 0:
        ok = len(segs) == 1 and segs[0][0] is None and segs[0][1] is None and tuple(segs[0][2]) == tuple(end)
        if not ok:
            return "line", f"zero radius must give one straight line to the end point, got {segs!r}", None
        return "line", None, "line"
    cp = R1.arc_center(start, rx, ry, rot, large, sweep, end)
    cx, cy, crx, cry, phi, th1, dth = cp
    if not segs:
        return "arc", "no segment for a proper arc", None
    if any(s[0] is None for s in segs):
        return "arc", f"straight line returned for a proper arc: {segs!r}", None
    if tuple(segs[-1][2]) != tuple(end):
        return "arc", f"last segment ends at {tuple(segs[-1][2])!r}, not exactly at the end point {tuple(end)!r}", None
    cphi, sphi = math.cos(phi), math.sin(phi)

    def unit(p):
        dx, dy = p[0] - cx, p[1] - cy
        return ((cphi * dx + sphi * dy) / crx, (-sphi * dx + cphi * dy) / cry)

    p0 = tuple(start)
    prev_ang = None
    total = 0.0
    worst = 0.0
    direction = 1 if sweep else -1
    ill = abs(abs(dth) - 2 * math.pi) < 1e-6 or abs(dth) < 1e-6
    for c1, c2, p1 in segs:
        for i in range(0, 17):
            t = i / 16
            q = unit(cubic_pt(p0, c1, c2, p1, t))
            r = math.hypot(*q)
            worst = max(worst, abs(r - 1))
            ang = math.atan2(q[1], q[0])
            if prev_ang is not None:
                d = ang - prev_ang
                while d > math.pi:
                    d -= 2 * math.pi
                while d < -math.pi:
                    d += 2 * math.pi
                if d * direction < -1e-7:
                    return "arc", f"polar angle moves against the sweep direction at segment point t={t} (step {d:.3g})", None
                total += d
            prev_ang = ang
        p0 = tuple(p1)
    # double-precision conditioning: positions are divided by the smaller corrected radius when they are
    # mapped into the unit-circle frame, so an error of a few ulps of the largest coordinate shows up
    # multiplied by coordinate / radius (3.2e7 for a start at (-1000, 2000) and a radius of 6e-5)
    cond = max(abs(start[0]), abs(start[1]), abs(end[0]), abs(end[1]), abs(cx), abs(cy), 1.0) / min(crx, cry)
    tol = RADIAL_TOL + 1e-13 * cond
    if worst > tol:
        return "arc", f"cubic leaves the corrected ellipse by {worst:.3g} of the radius (> {tol:.3g})", None
    if not ill and abs(total - dth) > 2e-3:
        return "arc", f"swept angle {total:.5f} rad, flags select {dth:.5f} rad", None
    return "arc", None, "arc"


def evaluate(case):
    from picosvg.arc_to_cubic import arc_to_cubic
    from picosvg.svg_types import SVGPath

    start = tuple(case["start"])
    rx, ry = case["rx"], case["ry"]
    outs = collections.Counter()
    nts = set()
    viols = []
    n = 0
    sample = None
    ends_ = [tuple(e) for e in case["ends"]]
    for rot in case["rots"]:
        for large, sweep in FLAGS:
            for e in ends_:
                end = (start[0] + e[0], start[1] + e[1])
                n += 1
                o, why, nt = judge(start, rx, ry, rot, large, sweep, end, arc_to_cubic)
                outs[o] += 1
                if nt:
                    nts.add(core.h64(repr((start, rx, ry, rot, large, sweep, end))))
                if why and len(viols) < 12:
                    viols.append(
                        {
                            "sig": {"kind": o, "mixed_sign_radii": (rx < 0) != (ry < 0) and rx != 0 and ry != 0},
                            "case": {"fam": "one", "args": [list(start), rx, ry, rot, large, sweep, list(end)]},
                            "detail": {"why": f"arc_to_cubic{(start, rx, ry, rot, large, sweep, end)}: {why}"},
                        }
                    )
                elif why:
                    outs["more-violations"] += 1
                if sample is None and nt == "arc":
                    sample = [list(start), rx, ry, rot, large, sweep, list(end)]
    # path level: relative arc through SVGPath.arcs_to_cubics must equal the direct call
    rot = case["rots"][0]
    # path level: the current point is not the origin, and the relative offsets include (0,0) and the
    # current point's own coordinates (an offset that merely *looks* like the start point)
    pstart = start if start != (0.0, 0.0) else (10.0, 7.5)
    for large, sweep in FLAGS:
        for e in ends_[:: max(1, len(ends_) // 9)] + [(0.0, 0.0), pstart, (pstart[0], 0.0)]:
            n += 1
            d = f"M{pstart[0]},{pstart[1]} a{rx} {ry} {rot} {large} {sweep} {e[0]},{e[1]}"
            try:
                got = list(SVGPath(d=d).arcs_to_cubics())[1:]
                end = (pstart[0] + e[0], pstart[1] + e[1])
                want = []
                for c1, c2, p1 in arc_to_cubic(pstart, rx, ry, rot, large, sweep, end):
                    want.append(("L", tuple(p1)) if c1 is None else ("C", tuple(c1) + tuple(c2) + tuple(p1)))
                ok = len(got) == len(want) and all(g[0] == w[0] and all(abs(a - b) <= 1e-9 * max(1, abs(b)) for a, b in zip(g[1], w[1])) for g, w in zip(got, want))
                outs["path-level"] += 1
                if not ok and len(viols) < 14:
                    viols.append({"sig": {"kind": "path-level"}, "case": {"fam": "path", "d": d}, "detail": {"why": f"SVGPath({d!r}).arcs_to_cubics() = {got!r}, direct call gives {want!r}"}})
            except Exception as ex:  # noqa
                outs["path-level-raised"] += 1
                viols.append({"sig": {"kind": "path-level-raised"}, "case": {"fam": "path", "d": d}, "detail": {"why": f"{type(ex).__name__}: {ex}"}})
    return {"n": n, "outs": outs, "nts": nts, "viol": viols, "sample": sample}


def boundary_cases():
    """radii exactly / barely fitting the chord, chord >> radii"""
    out = []
    for rx in (1.0, 3.0, 10.0):
        for rot in (0, 30, 90):
            ph = math.radians(rot)
            for k in (1.0, 1 + 1e-9, 1 - 1e-9, 1 + 1e-6, 1 - 1e-6, 50.0, 1e4):
                # chord along the rotated x axis of length 2*rx*k
                ex, ey = 2 * rx * k * math.cos(ph), 2 * rx * k * math.sin(ph)
                for ry in (rx, rx / 2, 2 * rx):
                    out.append({"fam": "blk", "start": [0.0, 0.0], "rx": rx, "ry": ry, "rots": [rot], "ends": [[ex, ey], [-ex, -ey]]})
    return out


def cases(tier, seed):
    es = ends(tier, seed)
    starts = [(0.0, 0.0)] if tier == "quick" else [(0.0, 0.0), (17.5, -4.25), (-1e3, 2e3)]
    rots = ROTS_T if tier == "thorough" else [0, 30, 90, 135, 400, -30]
    radii = RADII_T if tier == "thorough" else RADII
    for st in starts:
        for rx, ry in itertools.product(radii, radii):
            yield {"fam": "blk", "start": list(st), "rx": rx, "ry": ry, "rots": rots, "ends": [list(e) for e in es]}
    # the same arcs in another unit of length: everything (start, radii, end) multiplied by 10^k
    for k in ([-9, -6, 6, 8, 9] if tier == "quick" else [-12, -9, -8, -7, -6, -3, 3, 6, 7, 8, 9, 12]):
        m = 10.0 ** k
        for st in [(0.0, 0.0), (17.5 * m, -4.25 * m)]:
            for rx, ry in [(3, 1), (10, 10), (1, 7.5), (0.25, 3), (-3, 10)]:
                yield {"fam": "blk", "start": list(st), "rx": rx * m, "ry": ry * m, "rots": [0, 30, 135, -30], "ends": [[e[0] * m, e[1] * m] for e in es[:: 1 if tier == "thorough" else 2]]}
    yield from boundary_cases()


def run(run):
    run.rule = (
        "E2 product lattice: start x rx,ry in " + repr(RADII) + " x rotation in " + repr(ROTS) + " x 4 flag pairs x end-point lattice "
        "(incl. the start itself) + the same arcs with start, radii and end multiplied by 10^k (k in -9..9; thorough -12..12) + boundary families chord = 2rx(1 +- 1e-9, 1e-6), chord >> radii; relative arcs through SVGPath.arcs_to_cubics. "
        "Oracle: F.6.5/F.6.6 centre parametrisation; 17 samples per cubic mapped into the unit-circle frame of the corrected ellipse "
        "(radius within 3e-4, polar angle monotone in sweep direction, total = selected extent), exact end point, line for zero radius, nothing "
        "for coincident end points. Non-trivial = proper arc or line case that the implementation returned segments for (distinct argument tuples)."
    )
    run.cov["bounds"] = {"radii": RADII if run.tier == "quick" else RADII_T, "rotations": ROTS if run.tier == "quick" else ROTS_T, "end_lattice": len(ends(run.tier, run.seed)), "seed_phase": run.seed % 4}
    run.assumptions = ["total-angle check skipped when the selected extent is within 1e-6 of 0 or 2*pi (ill-conditioned)", "radial tolerance 3e-4 + 1e-13 * (largest coordinate / smaller corrected radius) to allow for double-precision conditioning; radii range over 7 orders of magnitude (1e-4..1e3); beyond an aspect ratio of about 1e7 the comparison itself is dominated by double-precision noise (measured 3.03e-4 at 1e8, 3.4e-4 at 1e12)"]
    run.floor_nt = 1000
    run.run_cases(MOD, cases(run.tier, run.seed), chunk=2)


def replay(case):
    from picosvg.arc_to_cubic import arc_to_cubic

    if case.get("fam") == "one":
        a = case["args"]
        o, why, nt = judge(tuple(a[0]), a[1], a[2], a[3], a[4], a[5], tuple(a[6]), arc_to_cubic)
        return [{"sig": {"kind": o}, "case": case, "detail": {"why": why}}] if why else []
    if case.get("fam") == "path":
        return [v for v in evaluate({"fam": "blk", "start": [0, 0], "rx": 1, "ry": 1, "rots": [0], "ends": [[1, 1]]})["viol"]]
    return evaluate(case)["viol"]
