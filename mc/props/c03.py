"""C03 - clip paths are rendered into exactly the clipped geometry.

E2 + R3: clipPath with 1-2 (3) children from a shape library where nonzero !=
evenodd matters x clip-rule per child (own / inherited from the clipPath) x
transform on clipPath / child x target kind x target transform x clipPath that
is itself clipped x 0-2 further clipped, transformed ancestor groups.
"""
import itertools
import re

import numpy as np

from mc import core
from mc.gen.docs import NS
from mc.props import render_common as RC
from mc.ref import scene

ID = "C03"
LEVEL = "exploration"
MOD = "mc.props.c03"

CLIPSHAPES = {
    "rect": '<rect x="25" y="20" width="45" height="40"{a}/>',
    "circle": '<circle cx="50" cy="50" r="26"{a}/>',
    "tri": '<polygon points="20,75 80,65 45,15"{a}/>',
    "star": '<polygon points="50,12 73,82 13,38 87,38 27,82"{a}/>',
    "nested": '<path d="M20,20 H80 V80 H20 Z M35,35 H65 V65 H35 Z"{a}/>',
    # two rings side by side (disjoint bounding boxes), each with a same-direction hole
    "ringL": '<path d="M8,18 H44 V72 H8 Z M16,28 H36 V62 H16 Z"{a}/>',
    "ringR": '<path d="M54,22 H94 V78 H54 Z M63,32 H85 V68 H63 Z"{a}/>',
    "starS": '<polygon points="25,8 34,38 10,19 40,19 16,38"{a}/>',
    # children without any region: the clip is empty (alone) / they add nothing (next to another child)
    "empty0": '<rect x="25" y="20" width="0" height="40"{a}/>',
    "nowidth": '<rect x="25" y="20" height="40"{a}/>',

}
RULES = ["nz", "eo", "eo-inherit", "eo-style"]
T1 = "translate(8,-5) rotate(12)"
T2 = "scale(.8) translate(10,10)"
T3 = "rotate(-10 50 50) translate(4,3)"
# a child transform that is far from commuting with T1 (swapping the two moves the region by several units)
T2S = "translate(30,-8) scale(.6,.9) rotate(25)"
T1S = "scale(1.3,.8) translate(-6,14)"

TARGETS = {
    "shape": ('<rect x="8" y="8" width="84" height="84" fill="red"{c}{t}/>', ""),
    "eoshape": ('<polygon points="50,5 78,92 5,35 95,35 22,92" fill="blue" fill-rule="evenodd"{c}{t}/>', ""),
    "group": ('<g{c}{t}><rect x="8" y="8" width="60" height="60" fill="red"/><circle cx="60" cy="60" r="32" fill="green"/></g>', ""),
    # the same clipPath referenced by siblings (and use instances) that have different transforms of their own
    "twins": ('<g><rect x="8" y="8" width="60" height="60" fill="red"{c} transform="translate(14,9)"/><circle cx="55" cy="55" r="34" fill="green"{c}{t}/><use xlink:href="#tw"{c} transform="rotate(8) translate(-6,4)"/></g>', '<rect id="tw" x="20" y="30" width="70" height="40" fill="navy"/>'),
    "use": ('<use xlink:href="#tg"{c}{t} x="3" y="2"/>', '<g id="tg"><rect x="8" y="8" width="80" height="50" fill="orange"/><circle cx="50" cy="65" r="28" fill="purple"/></g>'),
}


def clip_children(children, inherit_holder):
    out = ""
    inherit = False
    for k, (shape, rule, tchild) in enumerate(children):
        a = ""
        if rule == "eo":
            a += ' clip-rule="evenodd"'
        elif rule == "eo-style":
            a += ' style="clip-rule:evenodd"'
        elif rule == "eo-inherit":
            inherit = True
        if tchild:
            a += f' transform="{T2 if tchild is True else tchild}"'
        out += CLIPSHAPES[shape].format(a=a)
    inherit_holder.append(inherit)
    return out


def document(children, cp_t, target, target_t, nested, ancestors):
    hold = []
    kids = clip_children(children, hold)
    cp_attrs = ""
    if hold[0]:
        cp_attrs += ' clip-rule="evenodd"'
    if cp_t:
        cp_attrs += f' transform="{T1 if cp_t is True else cp_t}"'
    defs = ""
    if nested:
        # the clipPath referenced by the clipPath: a plain region, or one where the fill rule matters and which
        # has (or has not) a rule of its own - independent of the rule of the referencing clipPath
        inner = {
            True: '<clipPath id="c2"><ellipse cx="52" cy="48" rx="38" ry="24"/></clipPath>',
            "star": '<clipPath id="c2"><polygon points="50,5 76,90 8,36 92,36 24,90"/></clipPath>',
            "star-eo": '<clipPath id="c2" clip-rule="evenodd"><polygon points="50,5 76,90 8,36 92,36 24,90"/></clipPath>',
            "disjoint": '<clipPath id="c2"><rect x="80" y="75" width="15" height="20"/></clipPath>',
            "inner-empty": '<clipPath id="c2"><rect x="30" y="30" width="0" height="20"/></clipPath>',
            # chains of three and four clipPaths (every link removes part of the region the others keep)
            "chain3": '<clipPath id="c3"><rect x="30" y="10" width="35" height="80"/></clipPath><clipPath id="c2" clip-path="url(#c3)"><ellipse cx="52" cy="48" rx="38" ry="24"/></clipPath>',
            "chain4": '<clipPath id="c4"><rect x="0" y="36" width="100" height="26"/></clipPath><clipPath id="c3" clip-path="url(#c4)"><rect x="30" y="10" width="35" height="80"/></clipPath><clipPath id="c2" clip-path="url(#c3)"><ellipse cx="52" cy="48" rx="38" ry="24"/></clipPath>',
            "ring-childeo": '<clipPath id="c2"><path clip-rule="evenodd" d="M10,10 H90 V90 H10 Z M40,40 H60 V60 H40 Z"/><rect x="44" y="44" width="4" height="4"/></clipPath>',
        }[nested]
        defs += inner
        cp_attrs += ' clip-path="url(#c2)"'
    defs += f'<clipPath id="c1"{cp_attrs}>{kids}</clipPath>'
    tpl, tdefs = TARGETS[target]
    defs += tdefs
    body = tpl.format(c=' clip-path="url(#c1)"', t=f' transform="{T3 if target_t is True else target_t}"' if target_t else "")
    if ancestors >= 1:
        defs += '<clipPath id="ca"><circle cx="48" cy="52" r="40"/></clipPath>'
        body = f'<g clip-path="url(#ca)" transform="translate(3,2)">{body}</g>'
    if ancestors >= 2:
        defs += '<clipPath id="cb"><rect x="15" y="5" width="70" height="75"/></clipPath>'
        body = f'<g clip-path="url(#cb)" transform="rotate(5)">{body}</g>'
    return f'<svg {NS} viewBox="0 0 100 100"><defs>{defs}</defs><rect x="0" y="0" width="100" height="100" fill="yellow"/>{body}</svg>'


def all_cases(tier):
    shapes = [n for n in CLIPSHAPES if n not in ("ringL", "ringR", "starS", "empty0", "nowidth")]
    # empty clip regions: an empty child alone, next to a real child (either order), an inner clipPath that misses the outer one,
    # an empty clip on an ancestor group
    for e in ("empty0", "nowidth"):
        for target, anc, cp_t in itertools.product(("shape", "group", "use"), (0, 1), (False, True)):
            yield ([(e, "nz", False)], cp_t, target, False, False, anc)
            yield ([(e, "nz", False), ("circle", "nz", False)], cp_t, target, False, False, anc)
            yield ([("tri", "eo", False), (e, "nz", False)], cp_t, target, False, False, anc)
            yield ([("rect", "nz", False)], cp_t, target, False, "disjoint" if e == "empty0" else "inner-empty", anc)
    # children with pairwise disjoint bounding boxes (a union that is a mere concatenation)
    for (a, b) in (("ringL", "ringR"), ("starS", "ringR"), ("ringR", "ringL")):
        for ra, rb in itertools.product(("nz", "eo", "eo-inherit", "eo-style"), repeat=2):
            if (ra == "eo-inherit") != (rb == "eo-inherit") and "nz" in (ra, rb):
                continue
            for cp_t, target, anc in itertools.product((False, True), ("shape", "group", "twins"), (0, 1)):
                yield ([(a, ra, False), (b, rb, False)], cp_t, target, False, False, anc)
    # clipPath referencing a clipPath: rule of the outer one x rule situation of the inner one
    for (s, r) in [(s, r) for s in ("rect", "star", "nested") for r in RULES]:
        for nested, cp_t, target, anc in itertools.product(("star", "star-eo", "ring-childeo"), (False, True), ("shape", "group") if tier == "quick" else TARGETS, (0, 1)):
            yield ([(s, r, False)], cp_t, target, False, nested, anc)
    # chains of three / four clipPaths; clipPath and child transforms that do not commute (round 7)
    for (s_, r), nested, cp_t, target, anc in itertools.product((("rect", "nz"), ("star", "eo"), ("circle", "nz")), ("chain3", "chain4"), (False, True), ("shape", "group", "use"), (0, 1)):
        yield ([(s_, r, False)], cp_t, target, False, nested, anc)
    for (s_, r), (cp_t, tchild), target, anc in itertools.product((("rect", "nz"), ("star", "eo")), ((True, T2S), (T1S, True), (T1S, T2S)), ("shape", "group", "use"), (0, 1)):
        yield ([(s_, r, tchild)], cp_t, target, False, False, anc)
        yield ([(s_, r, tchild), ("circle", "nz", False)], cp_t, target, False, False, anc)
    # targets whose own transform is close to the identity (every entry within 0.1 of it)
    for s_, r in (("rect", "nz"), ("star", "eo"), ("circle", "nz")):
        for tt, target, cp_t, anc in itertools.product(("scale(1.06)", "rotate(4)", "matrix(1.03 .02 -.04 .97 .05 -.08)"), ("shape", "group", "use"), (False, True), (0, 1)):
            yield ([(s_, r, False)], cp_t, target, tt, False, anc)
    child1 = [(s, r) for s in shapes for r in RULES]
    # k = 1: full product
    for (s, r), tchild, cp_t, target, target_t, nested, anc in itertools.product(child1, (False, True), (False, True), TARGETS, (False, True), (False, True), (0, 1, 2)):
        if cp_t and nested and (tier == "quick" and (anc or tchild)):
            continue  # clipPath with a transform AND a clip-path of its own: kept to a sub-product in quick
        if tier == "quick" and anc == 2 and (target_t or tchild):
            continue
        yield ([(s, r, tchild)], cp_t, target, target_t, nested, anc)
    # k = 2
    rules2 = ["nz", "eo", "eo-inherit"]
    child2 = [(s, r) for s in shapes for r in rules2]
    for (a, b) in itertools.product(child2, repeat=2):
        if a[1] == "eo-inherit" and b[1] == "nz":
            continue  # the inherited rule would apply to both children
        for tchild, cp_t, target, anc in itertools.product((False, True), (False, True), ("shape", "group", "twins") if tier == "quick" else TARGETS, (0, 1)):
            if tier == "quick" and (tchild and cp_t):
                continue
            yield ([(a[0], a[1], tchild), (b[0], b[1], False)], cp_t, target, False, False, anc)
    if tier == "thorough":
        sh3 = ["rect", "star", "nested"]
        for trip in itertools.product([(s, r) for s in sh3 for r in ("nz", "eo")], repeat=3):
            for cp_t, target in itertools.product((False, True), ("shape", "eoshape")):
                yield ([(trip[0][0], trip[0][1], False), (trip[1][0], trip[1][1], True), (trip[2][0], trip[2][1], False)], cp_t, target, False, False, 0)
        # clipped clipPath with two children and ancestors
        for (a, b) in itertools.product(child2[::2], repeat=2):
            for target, anc in itertools.product(TARGETS, (0, 1, 2)):
                yield ([(a[0], a[1], False), (b[0], b[1], False)], False, target, True, True, anc)


def corpus_for_c07(tier, seed):
    for k, c in enumerate(all_cases("quick")):
        if tier == "thorough" or k % 7 == 0:
            yield document(*c)


def evaluate(case):
    c = case["c"]
    children = [tuple(x) for x in c[0]]
    doc = document(children, *c[1:])
    inherit = any(r == "eo-inherit" for _, r, _ in children)
    rec = RC.record(doc, case["tier"], case["seed"], sig_extra={"family": "clip", "clip_rule_on_clippath": inherit, "nested": bool(c[4]), "ancestors": c[5]}, case_extra={"c": c})
    # vacuity: does the clip remove and keep points of the unclipped target?
    if rec["nt"] is not None:
        try:
            stripped = re.sub(r' clip-path="url\(#c1\)"', "", doc)
            S = scene.build(doc)
            U = scene.build(stripped)
            pts = scene.lattice(S.viewbox, 24, 0)
            cs, cu = S.coverage(pts), U.coverage(pts)
            # ignore the yellow background leaf (index 0)
            ins = (cs[1:] == 1).any(0)
            inu = (cu[1:] == 1).any(0)
            removed = int((inu & ~ins & ~(cs[1:] == -1).any(0)).sum())
            kept = int((ins & inu).sum())
            if removed < 20 or kept < 20:
                rec["nt"] = None
            rec["cnt"]["clip_removed_points"] = removed
            rec["cnt"]["clip_kept_points"] = kept
        except Exception:
            pass
    return rec


def cases(tier, seed):
    for c in all_cases(tier):
        yield {"c": [[list(x) for x in c[0]]] + list(c[1:]), "tier": tier, "seed": seed}


def run(run):
    run.rule = (
        "E2 + R3: clipPath with k children from {rect, circle, triangle, pentagram (nonzero != evenodd), two nested same-direction squares}, k = 1 full product, k = 2 over "
        "15 (shape, rule) options, k = 3 over a 3-shape library (thorough) x clip-rule {nonzero, evenodd on the child, evenodd in the child's style, evenodd inherited from the clipPath element} "
        "x transform on clipPath x transform on child x target {nonzero shape, evenodd self-overlapping shape, group of two shapes, use} x target transform x clipPath clipped by a second "
        "clipPath (a plain ellipse, or one where the fill rule matters: pentagram without rule, pentagram with clip-rule=evenodd on that clipPath, ring with the rule on the child) x 0-2 clipped+transformed ancestor groups. A clipPath that has a transform and a clip-path of its own is read as: the inner reference is resolved in the user space that includes the clipPath's transform (by analogy with clip-path on any other transformed element). Oracle: paint stacks/composites of source vs "
        "output equal outside the band; no clip-path/clipPath in the output (R4). Non-trivial = the clip removes >= 20 and keeps >= 20 lattice points of the unclipped target."
    )
    run.assumptions = ["clipPathUnits=objectBoundingBox and clip-path on clipPath children are outside the statement's grammar"]
    run.floor_nt = 300
    run.run_cases(MOD, cases(run.tier, run.seed), chunk=8)
    run.cov["compared_points"] = int(run.cnt.get("compared_points", 0))


def replay(case):
    if "c" in case:
        c = case["c"]
        doc = document([tuple(x) for x in c[0]], *c[1:])
    else:
        doc = case["doc"]
    return RC.record(doc, "quick", 0)["viol"]
