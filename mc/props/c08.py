"""C08 - converted documents have no duplicate, dangling or orphaned references.

E2: reference-complete documents with one or two gradients (optionally one the
href template of the other), pre-existing ids that collide with the ids the
conversion generates (g_0, g_1, nested-svg-viewport-0), referenced by every
sequence of referrers up to a length bound (visible, transformed => cloned
gradient, zero-opacity, zero-area, display:none, stroked shape with id,
gradient stroke, element instanced twice through use) +- nested svg +- clipPath.
Oracle: reference graph of the serialised output (stdlib XML parse).
"""
import collections
import itertools
import re

from mc import core
from mc.gen.docs import NS
from mc.ref import picogrammar as R4

ID = "C08"
LEVEL = "exploration"
MOD = "mc.props.c08"

REFERRERS = {
    "vis": '<rect {id} x="{x}" y="10" width="20" height="20" fill="url(#{g})"/>',
    "xf": '<rect {id} x="{x}" y="10" width="20" height="20" fill="url(#{g})" transform="translate(3 40)"/>',
    "xf2": '<circle {id} cx="{x}" cy="20" r="9" fill="url(#{g})" transform="rotate(20) scale(1.5)"/>',
    "op0": '<rect {id} x="{x}" y="10" width="20" height="20" fill="url(#{g})" opacity="0"/>',
    "area0": '<rect {id} x="{x}" y="10" width="0" height="20" fill="url(#{g})"/>',
    "none": '<rect {id} x="{x}" y="10" width="20" height="20" fill="url(#{g})" display="none"/>',
    "stroked": '<rect {id} x="{x}" y="50" width="20" height="20" fill="url(#{g})" stroke="black" stroke-width="3"/>',
    "gstroke": '<rect {id} x="{x}" y="50" width="20" height="20" fill="none" stroke="url(#{g})" stroke-width="4"/>',
    "use2": '<use xlink:href="#u{k}" x="{x}" y="70"/><use xlink:href="#u{k}" x="{x}" y="82" transform="scale(.5)"/>',
    "useinv": '<use xlink:href="#u{k}" x="{x}" y="70" opacity="0"/>',
    # a kept translucent group that loses one child while tidying and whose remaining child then fades to nothing
    # (.02 x .02 rounds to 0 at the default 3 digits): the last user of the gradient disappears LATE
    "fadegroup": '<g opacity=".02"><rect {id} x="{x}" y="30" width="20" height="20" fill="url(#{g})" opacity=".02"/><rect x="{x}" y="35" width="9" height="9" opacity="0"/></g>',
    "fadegroupxf": '<g opacity=".02" transform="translate(1 2)"><circle {id} cx="{x}" cy="40" r="8" fill="url(#{g})" opacity=".02"/><rect x="{x}" y="35" width="9" height="0"/></g>',
}
# referrers inside containers that only drop_unsupported=True removes (converted with that option)
DROP_REFERRERS = {
    "ina": '<a xlink:href="http://example.com/"><rect {id} x="{x}" y="10" width="20" height="20" fill="url(#{g})"/></a>',
    "inaxf": '<a xlink:href="http://example.com/"><rect {id} x="{x}" y="10" width="20" height="20" fill="url(#{g})" transform="translate(2 30)"/></a>',
    "inswitch": '<switch><circle {id} cx="{x}" cy="60" r="8" fill="url(#{g})" transform="scale(1.2)"/></switch>',
    "image": '<image {id} x="{x}" y="80" width="5" height="5" xlink:href="data:image/png;base64,AAAA"/>',
}
REFERRERS_ALL = None
USE_TARGET = '<rect id="u{k}" width="12" height="8" fill="url(#{g})"/>'

GRAD = '<linearGradient id="{id}" x1="0" y1="0" x2="1"{extra}>{stops}</linearGradient>'
STOPS = '<stop offset="0" stop-color="red"/><stop offset="1" stop-color="blue"/>'
RGRAD = '<radialGradient id="{id}"{extra}>{stops}</radialGradient>'

SETUPS = ["g", "g+h", "h->g", "h->g->t", "h->g*->t*"]
COLLISIONS = ["none", "shape:g_0", "grad:g_0", "shape:g_0+g_1", "shape:h_0", "root:g_0", "stop:g_0"]


def document(setup, collision, seq, nested, clip, ids):
    defs = ""
    if setup == "g":
        defs += GRAD.format(id="g", extra="", stops=STOPS)
    elif setup == "g+h":
        defs += GRAD.format(id="g", extra="", stops=STOPS) + RGRAD.format(id="h", extra=' gradientUnits="userSpaceOnUse" cx="50" cy="50" r="40"', stops=STOPS)
    elif setup == "h->g":
        defs += GRAD.format(id="g", extra="", stops=STOPS) + GRAD.format(id="h", extra=' xlink:href="#g" gradientTransform="rotate(15)"', stops="")
    elif setup == "h->g->t":
        defs += (
            GRAD.format(id="t", extra=' spreadMethod="reflect"', stops=STOPS)
            + GRAD.format(id="g", extra=' xlink:href="#t"', stops="")
            + GRAD.format(id="h", extra=' xlink:href="#g" y2="1"', stops="")
        )
    elif setup == "h->g*->t*":
        # round 7: the referrer comes first in document order; the middle template has stops of its own WITH ids and
        # still an href; the far end has id-carrying stops too
        defs += (
            GRAD.format(id="h", extra=' xlink:href="#g" y2="1"', stops="")
            + GRAD.format(id="g", extra=' xlink:href="#t"', stops='<stop id="sa" offset="0" stop-color="green"/><stop id="sb" offset="1" stop-color="white"/>')
            + GRAD.format(id="t", extra=' spreadMethod="reflect"', stops='<stop id="sc" offset="0" stop-color="red"/><stop id="sd" offset="1" stop-color="blue"/>')
        )
    body = ""
    if collision == "shape:g_0":
        body += '<rect id="g_0" x="80" y="80" width="5" height="5"/>'
    elif collision == "grad:g_0":
        defs += GRAD.format(id="g_0", extra="", stops='<stop offset="0" stop-color="lime"/><stop offset="1" stop-color="black"/>')
        body += '<rect x="80" y="80" width="5" height="5" fill="url(#g_0)"/>'
    elif collision == "shape:g_0+g_1":
        body += '<rect id="g_0" x="80" y="80" width="5" height="5"/><circle id="g_1" cx="90" cy="90" r="3"/>'
    elif collision == "shape:h_0":
        body += '<path id="h_0" d="M70,70 h5 v5 z"/>'
    for k, (kind, g) in enumerate(seq):
        if g == "h" and setup == "g":
            g = "g"
        idattr = f'id="{ids}{k}"' if ids else ""
        if kind in ("use2", "useinv"):
            defs += USE_TARGET.format(k=k, g=g)
        body += (REFERRERS.get(kind) or DROP_REFERRERS[kind]).format(id=idattr, x=5 + 24 * k, g=g, k=k)
    if clip:
        # clipPath whose id is a prefix of / similar to shape ids
        defs += f'<clipPath id="{ids or "s"}"><rect x="0" y="0" width="60" height="60"/></clipPath>'
        body = f'<g clip-path="url(#{ids or "s"})">{body}</g>'
    if nested:
        defs += '<rect id="nested-svg-viewport-0" width="1" height="1"/>'
        body += '<svg x="50" y="50" width="40" height="40" viewBox="0 0 20 20"><rect width="30" height="10" fill="url(#g)"/></svg><svg x="5" y="85" width="30" height="12" viewBox="0 0 20 20"><circle cx="10" cy="10" r="15" fill="url(#g)"/></svg><use xlink:href="#nested-svg-viewport-0" x="95" y="95"/>'
    rootid = ' id="g_0"' if collision == "root:g_0" else ""
    if collision == "stop:g_0":
        defs = defs.replace('<stop offset="0" stop-color="red"/>', '<stop id="g_0" offset="0" stop-color="red"/>', 1)
    return f'<svg {NS} viewBox="0 0 100 100"{rootid}><defs>{defs}</defs>{body}</svg>'


URL = re.compile(r"""url\(\s*['"]?#([^)\s'"]+)['"]?\s*\)""")

# other legal spellings of the same reference: ids with characters beyond [A-Za-z0-9_-], quoted / padded url()
SPELL_IDS = ["g.1", "a:b", "\u00dcn\u00ef-\u00f6", "_"]
SPELL_URLS = ["url(#{})", "url('#{}')", "url(&quot;#{}&quot;)", "url( #{} )", "url(#{}) red", "url(#{}) none"]


def respell(doc, gid, hid, urlstyle):
    """rename gradient g (and h) and rewrite every url() that points at them in the given style"""
    for old, new in (("g", gid), ("h", hid)):
        doc = doc.replace(f'id="{old}"', f'id="{new}"').replace(f'xlink:href="#{old}"', f'xlink:href="#{new}"').replace(f"url(#{old})", urlstyle.format(new))
    return doc


def reference_graph(out):
    root = R4.parse_xml(out)
    ids = collections.Counter()
    grads = set()
    urls = []  # (element tag, id)
    hrefs = []
    defs = None
    for el in root.iter():
        if not isinstance(el.tag, str):
            continue
        ns, local = R4.split(el.tag)
        if local == "defs" and defs is None:
            defs = el
    in_defs = set()
    if defs is not None:
        for el in defs.iter():
            in_defs.add(id(el))
    for el in root.iter():
        if not isinstance(el.tag, str):
            continue
        ns, local = R4.split(el.tag)
        if "id" in el.attrib:
            ids[el.get("id")] += 1
            if local in ("linearGradient", "radialGradient") and id(el) in in_defs:
                grads.add(el.get("id"))
        for a, v in el.attrib.items():
            ans, al = R4.split(a)
            if al == "href":
                hrefs.append((local, v))
            for m in URL.finditer(v):
                urls.append((local, m.group(1)))
    return ids, grads, urls, hrefs


def judge(doc, drop=False):
    from picosvg.svg import SVG

    try:
        out = SVG.fromstring(doc).topicosvg(drop_unsupported=drop).tostring()
    except Exception as e:  # noqa
        return "raised:" + type(e).__name__, [], f"{type(e).__name__}: {e}", None
    ids, grads, urls, hrefs = reference_graph(out)
    why = []
    for i, n in ids.items():
        if n > 1:
            why.append(("duplicate-id", f"id {i!r} occurs {n} times"))
    for tag, u in urls:
        if u not in grads:
            why.append(("dangling-url", f"{tag} refers to url(#{u}) which is not a gradient in defs"))
    used = {u for tag, u in urls if tag == "path"}
    for g in sorted(grads):
        if g not in used:
            why.append(("orphan-gradient", f"gradient {g!r} in defs is not referenced by any path"))
    for tag, h in hrefs:
        why.append(("href", f"{tag} keeps href {h!r}"))
    return "returned", why, out, (len(grads), len(ids))


def evaluate_spelled(case):
    setup = case["setup"]
    targets = ["g", "h"] if setup != "g" else ["g"]
    kinds = ["vis", "xf", "op0", "stroked", "gstroke", "use2"]
    outs = collections.Counter()
    nts = set()
    viols = []
    n = 0
    for L in (1, 2):
        for seq in itertools.product([(k, t) for k in kinds for t in targets], repeat=L):
            if L == 2 and seq[0][0] not in ("vis", "xf"):
                continue
            base = document(setup, "none", seq, False, case["clip"], "")
            doc = respell(base, case["gid"], case["gid"] + "h", case["url"])
            n += 1
            o, why, out, stats = judge(doc, False)
            outs["spelled/" + o] += 1
            if o != "returned":
                if len(viols) < 8:
                    viols.append({"sig": {"kind": "raised", "type": o, "fam": "spelled"}, "case": {"fam": "doc", "doc": doc, "drop": False}, "detail": {"why": f"conversion of a reference-complete document failed: {out}"}})
                continue
            nts.add(core.h64(doc))
            if why and len(viols) < 8:
                viols.append({"sig": {"kind": why[0][0], "fam": "spelled", "kinds": sorted({w[0] for w in why})}, "case": {"fam": "doc", "doc": doc, "drop": False}, "detail": {"why": "; ".join(w[1] for w in why), "output": out[:2500]}})
    return {"n": n, "outs": outs, "nts": nts, "viol": viols, "sample": None}


def spelled_cases(tier):
    for setup in SETUPS if tier == "thorough" else ["g", "h->g"]:
        for gid in SPELL_IDS:
            for url in SPELL_URLS:
                for clip in (False, True) if tier == "thorough" else (False,):
                    yield {"fam": "spelled", "setup": setup, "gid": gid, "url": url, "clip": clip}


def evaluate_big(case):
    from mc.gen import big

    outs = collections.Counter()
    nts = set()
    viols = []
    n = 0
    for label, doc in big.all_docs(case["tier"]):
        for drop in (False, True):
            n += 1
            o, why, out, stats = judge(doc, drop)
            outs["big/" + o] += 1
            if o != "returned":
                viols.append({"sig": {"kind": "raised", "type": o, "fam": "big", "doc": label.split("-")[0]}, "case": {"fam": "doc", "doc": doc, "drop": drop}, "detail": {"why": f"conversion of a reference-complete document ({label}) failed: {out}"}})
                continue
            nts.add(core.h64(doc + str(drop)))
            if why:
                viols.append({"sig": {"kind": why[0][0], "fam": "big", "doc": label.split("-")[0]}, "case": {"fam": "doc", "doc": doc, "drop": drop}, "detail": {"why": "; ".join(w[1] for w in why)[:600], "output": out[:2500], "drop_unsupported": drop}})
    return {"n": n, "outs": outs, "nts": nts, "viol": viols[:8], "sample": None}


def evaluate(case):
    if case.get("fam") == "big":
        return evaluate_big(case)
    if case.get("fam") == "spelled":
        return evaluate_spelled(case)
    setup, collision, nested, clip, ids = case["setup"], case["collision"], case["nested"], case["clip"], case["ids"]
    drop = bool(case.get("drop"))
    kinds = list(REFERRERS) if not drop else ["vis", "xf", "op0", "use2"] + list(DROP_REFERRERS)
    targets = ["g", "h"] if setup != "g" else ["g"]
    alphabet = [(k, t) for k in kinds for t in targets]
    outs = collections.Counter()
    nts = set()
    viols = []
    n = 0
    sample = None
    first = tuple(case["first"])
    for L in case["lens"]:
        for rest in itertools.product(alphabet, repeat=L - 1):
            seq = (first,) + rest
            doc = document(setup, collision, seq, nested, clip, ids)
            n += 1
            o, why, out, stats = judge(doc, drop)
            outs[o] += 1
            if o != "returned":
                # every source is reference-complete and supported: failing is itself suspicious
                if len(viols) < 8:
                    viols.append({"sig": {"kind": "raised", "type": o}, "case": {"fam": "doc", "doc": doc, "drop": drop}, "detail": {"why": f"conversion of a reference-complete document failed: {out}"}})
                continue
            if stats[0] >= 1 or collision != "none" or ids:
                nts.add(core.h64(doc))
            if sample is None and L >= 2 and stats[0] >= 2:
                sample = doc
            if why and len(viols) < 8:
                inv = [k for k, _ in seq if k in ("op0", "area0", "none", "useinv")]
                viols.append(
                    {
                        "sig": {"kind": why[0][0], "invisible_referrer": bool(inv), "kinds": sorted({w[0] for w in why})},
                        "case": {"fam": "doc", "doc": doc, "drop": drop},
                        "detail": {"why": "; ".join(w[1] for w in why), "output": out[:2500], "drop_unsupported": drop},
                    }
                )
            elif why:
                outs["more-violations"] += 1
    return {"n": n, "outs": outs, "nts": nts, "viol": viols, "sample": sample}


def cases(tier, seed):
    lens = [1, 2] if tier == "quick" else [1, 2, 3]
    for setup in SETUPS:
        targets = ["g", "h"] if setup != "g" else ["g"]
        for collision in COLLISIONS:
            for nested in (False, True):
                for clip in (False, True):
                    for ids in ("", "s"):
                        if tier == "quick" and ids and (nested or clip) and collision not in ("none", "shape:g_0"):
                            continue
                        ql = lens
                        if tier == "quick" and (collision not in ("none", "grad:g_0") or (nested and clip)):
                            ql = [1]
                        for k in REFERRERS:
                            for t in targets:
                                yield {"setup": setup, "collision": collision, "nested": nested, "clip": clip, "ids": ids, "first": [k, t], "lens": ql if tier == "quick" else (lens if (collision in ("none", "grad:g_0") and not ids) else [1, 2])}


def drop_cases(tier):
    for setup in SETUPS:
        targets = ["g", "h"] if setup != "g" else ["g"]
        for collision in ("none", "grad:g_0"):
            for k in ["vis", "xf", "op0", "use2"] + list(DROP_REFERRERS):
                for t in targets:
                    yield {"setup": setup, "collision": collision, "nested": False, "clip": False, "ids": "", "first": [k, t], "lens": [1, 2] if (tier == "thorough" or collision == "none") else [1], "drop": True}


def run(run):
    run.rule = (
        "E2: gradient setups " + repr(SETUPS) + " x pre-existing colliding ids " + repr(COLLISIONS) + " x every referrer sequence of length <= "
        + ("2" if run.tier == "quick" else "3") + " over " + repr(list(REFERRERS)) + " x target gradient x +-nested svg (with pre-existing nested-svg-viewport-0 id) "
        "x +-clipPath x +-ids on the referrers; the same references spelled differently (gradient ids " + repr(SPELL_IDS) + " x url styles plain / single-quoted / double-quoted / padded) x referrer sequences <= 2; all sources reference-complete. Oracle: ids unique, every url(#x) resolves to a gradient in defs, every "
        "gradient in defs referenced by a path, no href. Non-trivial = output has >= 1 gradient or the source had ids that must be dropped/renamed."
    )
    run.floor_nt = 500
    run.run_cases(MOD, itertools.chain([{"fam": "big", "tier": run.tier}], spelled_cases(run.tier), cases(run.tier, run.seed), drop_cases(run.tier)), chunk=1)


def replay(case):
    o, why, out, stats = judge(case["doc"], bool(case.get("drop")))
    if o != "returned":
        return [{"sig": {"kind": "raised"}, "case": case, "detail": {"why": out}}]
    if why:
        return [{"sig": {"kind": why[0][0]}, "case": case, "detail": {"why": "; ".join(w[1] for w in why), "output": out[:2500]}}]
    return []
