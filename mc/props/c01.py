"""C01 - conversion output always conforms to the documented picosvg grammar.

E2: documents = root svg [root attribute setting] with every child sequence up
to a length bound over an alphabet of supported and unsupported node kinds
(mc/gen/docs.py) x configuration grid ndigits x allow_text x drop_unsupported;
library call and CLI.  Oracle: R4 (mc/ref/picogrammar.py) on every normal return.
"""
import collections
import itertools
import os
import subprocess
import sys
import tempfile

from mc import core
from mc.gen import docs as G
from mc.ref import picogrammar as R4

ID = "C01"
LEVEL = "exploration"
MOD = "mc.props.c01"

CORNERS = [(False, False), (False, True), (True, False), (True, True)]  # (allow_text, drop_unsupported)


def convert(doc, ndigits, allow_text, drop, entry="fromstring"):
    from picosvg.svg import SVG

    try:
        if entry == "tree":
            # the caller parses the text himself (lxml defaults keep comments, PIs, blank text) and hands over the tree
            from lxml import etree

            src = SVG(etree.fromstring(doc.encode("utf-8")))
        else:
            src = SVG.fromstring(doc)
        out = src.topicosvg(ndigits=ndigits, allow_text=allow_text, drop_unsupported=drop).tostring()
        return "returned", out
    except Exception as e:  # noqa
        return "raised:" + type(e).__name__, f"{type(e).__name__}: {e}"


def judge(doc, reduced_doc, ndigits, allow_text, drop, has_unsupported, entry="fromstring"):
    """-> (outcome, [complaints], out)"""
    o, out = convert(doc, ndigits, allow_text, drop, entry)
    why = []
    if o == "returned":
        why = R4.validate(out, ndigits=ndigits, allow_text=allow_text, require_stops=True)
        if "<!--" in out or "<?" in out:
            why.append("comment / processing instruction survives")
        if not allow_text and ("<text" in out or "<tspan" in out):
            why.append("text content survives without allow_text")
    elif drop and has_unsupported and reduced_doc is not None:
        # must not fail *because of* unsupported elements: the same document without them converts?
        o2, out2 = convert(reduced_doc, ndigits, allow_text, drop)
        if o2 == "returned":
            why = [f"drop_unsupported=True but the call failed ({out[:160]}) although the document without its unsupported nodes converts"]
    return o, why, out


def evaluate(case):
    ks = case["kinds"]
    root = case["root"]
    doc = G.document(ks, root)
    hu = G.has_unsupported(ks)
    red = G.document(ks, root, drop_unsupported_nodes=True) if hu else None
    outs = collections.Counter()
    viols = []
    nts = set()
    n = 0
    sample = None
    for nd, at, dr, *rest in list(case["configs"]) + [(3, False, True, "tree")]:
        n += 1
        entry = rest[0] if rest else "fromstring"
        o, why, out = judge(doc, red, nd, at, dr, hu, entry)
        outs[o if entry == "fromstring" else "tree-" + o] += 1
        if o == "returned" and any(k in G.NESTED or k.split(":")[-1].split("+")[0] in G.FORBIDDEN_IN_OUTPUT or ":" in k for k in ks):
            nts.add(core.h64(doc + repr((nd, at, dr))))
            if sample is None and len(ks) > 1:
                sample = {"doc": doc, "ndigits": nd, "allow_text": at, "drop_unsupported": dr}
        if why:
            kind = "grammar" if o == "returned" else "drop-unsupported-failed"
            viols.append(
                {
                    "sig": {"kind": kind, "first": why[0].split(" at ")[0][:60], "group_child_count": any("element children survives" in w for w in why), "only_group_children": all("element children survives" in w for w in why)},
                    "case": {"fam": "doc", "doc": doc, "reduced": red, "ndigits": nd, "allow_text": at, "drop": dr, "unsupported": hu, "kinds": ks, "root": root, "entry": entry},
                    "detail": {"why": "; ".join(why)[:1500], "output": out[:3000]},
                }
            )
    return {"n": n, "outs": outs, "nts": nts, "viol": viols[:6], "sample": sample, "cnt": {"unused_foreign_xmlns": 0}}


def evaluate_cli(case):
    ks = case["kinds"]
    clip = case.get("clip", False)
    doc = G.document(ks, "none", viewbox=case.get("viewbox") or "0 0 100 100")
    at, dr, to_file = case["allow_text"], case["drop"], case["to_file"]
    with tempfile.TemporaryDirectory() as td:
        inp = os.path.join(td, "in.svg")
        outp = os.path.join(td, "out.svg")
        with open(inp, "w") as f:
            f.write(doc)
        cmd = [sys.executable, "-m", "picosvg.picosvg", inp]
        if at:
            cmd.append("--allow_text")
        if dr:
            cmd.append("--drop_unsupported")
        if clip:
            cmd.append("--clip_to_viewbox")
        if to_file == "stdin":
            cmd.remove(inp)
        elif to_file:
            cmd += ["--output_file", outp]
        env = dict(os.environ)
        p = subprocess.run(cmd, stdout=subprocess.PIPE, stderr=subprocess.PIPE, text=True, env=env, timeout=120, input=doc if to_file == "stdin" else None)
        if p.returncode != 0:
            return {"out": "cli-failed", "nt": None, "viol": []}
        if to_file is True:
            out = open(outp).read() if os.path.exists(outp) else ""
        else:
            out = p.stdout
    # (cutting at the viewBox border produces new, unrounded coordinates: rounding is not judged with that flag)
    why = R4.validate(out, ndigits=None if clip else 3, allow_text=at)
    # the CLI must produce what the library call produces with the same options
    o, lib = convert(doc, 3, at, dr)
    if o == "returned" and clip:
        from picosvg.svg import SVG

        lib = SVG.fromstring(lib).clip_to_viewbox(inplace=True).tostring()
    if o == "returned":
        import re

        norm = lambda s: re.sub(r">\s+<", "><", s.strip())
        if norm(lib) != norm(out):
            why.append("CLI output differs from the library result with the same options (flag wired to the wrong option?)")
    viols = []
    if why:
        viols.append({"sig": {"kind": "cli-grammar", "first": why[0][:60]}, "case": dict(case, fam="cli"), "detail": {"why": "; ".join(why)[:1500], "output": out[:2000]}})
    return {"out": "cli-returned", "nt": "cli" + doc + repr((at, dr, to_file)), "viol": viols}


def configs_full():
    return [(nd, at, dr) for nd in range(7) for at, dr in CORNERS]


def configs_corners(nds=(3,)):
    return [(nd, at, dr) for nd in nds for at, dr in CORNERS]


def cases(tier, seed):
    base = G.kinds("base")
    groups = G.kinds("groups")
    # depth 1: full configuration grid, all root attribute settings
    for k in base + groups:
        if k in G.NESTED:
            # nested groups: every option corner at the coarsest and the default rounding; one root setting
            yield {"fam": "doc", "kinds": [k], "root": "none", "configs": configs_corners((0, 3))}
            if tier == "thorough" or k.endswith(".after"):
                yield {"fam": "doc", "kinds": [k], "root": "opacity", "configs": [(3, False, True), (3, False, False)]}
            continue
        for r in G.ROOT_ATTRS:
            yield {"fam": "doc", "kinds": [k], "root": r, "configs": configs_full() if (r == "none" or ":" not in k) else configs_corners()}
    # length 2 over the base alphabet: 4 corners at ndigits 3 (+ 0 and 6 on the plain corner)
    for a, b in itertools.product(base, repeat=2):
        yield {"fam": "doc", "kinds": [a, b], "root": "none", "configs": configs_corners() + [(0, False, True), (6, False, True)]}
    pick = ["rect", "stroked", "clipped", "lingrad", "image", "invisible", "use"]
    for g in groups:
        for b in pick:
            yield {"fam": "doc", "kinds": [g, b], "root": "none", "configs": [(3, False, True), (3, False, False)]}
    if tier == "thorough":
        for a, b, c in itertools.product(base, repeat=3):
            yield {"fam": "doc", "kinds": [a, b, c], "root": "none", "configs": [(3, False, True), (3, True, False)]}
        for g in groups:
            for b in base:
                yield {"fam": "doc", "kinds": [b, g], "root": "fill", "configs": configs_corners((0, 3, 6))}


def cli_cases(tier):
    ks = G.kinds("base") + (["gop:rect+circle", "gop:rect+invisible", "gxf:stroked+lingrad"] if tier == "thorough" else ["gop:rect+circle"])
    for k in ks:
        for at, dr in CORNERS:
            for to_file in (False, True):
                yield {"kinds": [k], "allow_text": at, "drop": dr, "to_file": to_file}
    # --clip_to_viewbox: group kinds under viewBoxes that leave some children outside / cut others; stdin input
    groups = [k for k in G.kinds("groups") if k not in G.NESTED and k.split(":")[0] in ("gop", "gopxf", "gclip", "g")]
    nested = [k for k in G.kinds("groups") if k in G.NESTED]
    pool = groups + (nested if tier == "thorough" else nested[::12])
    for k in pool:
        for vb in ("0 0 30 30", "40 40 60 60", "0 0 100 12", "0 0 100 100"):
            yield {"kinds": [k], "allow_text": False, "drop": True, "to_file": "stdin" if vb == "0 0 100 12" else False, "clip": True, "viewbox": vb}


def run(run):
    run.rule = (
        "E2: root svg[viewBox, root attribute setting in " + repr(list(G.ROOT_ATTRS)) + "] with every child sequence of length <= 2 (quick) / <= 3 (thorough) "
        f"over {len(G.kinds('base'))} leaf kinds (7 basic shapes, path variants, stroke, evenodd, style, invisible, use, clipPath, 3 gradient kinds, "
        f"nested svg, symbol, text and the unsupported set filter/mask/image/style/pattern/a/foreignObject, comment/PI/foreign namespace/title) and {len(G.kinds('groups'))} "
        "group kinds (6 attribute settings x child sequences <= 2 over 6 leaves, clipped groups) x configurations (full 28-config grid at depth 1, "
        "corners elsewhere), each document additionally through the caller-parsed-tree entry SVG(lxml tree) (comments / PIs kept by the parser); text with unsupported descendants (a, image, animate); CLI in a subprocess x 4 flag corners x {stdout, --output_file}, "
        "and --clip_to_viewbox on every translucent / clipped / plain group kind under 4 viewBoxes that leave children outside or cut them (one of them fed through stdin). Oracle R4 over the serialised result; drop_unsupported failure rule. "
        "Non-trivial = conversion returned normally and the source contained a construct the grammar forbids in outputs (distinct document+config)."
    )
    run.cov["bounds"] = {"max_children": 2 if run.tier == "quick" else 3, "ndigits": "0..6", "kinds": len(G.kinds("all"))}
    run.assumptions = ["attribute values come from small alphabets; unused foreign xmlns declarations are reported, not judged"]
    run.floor_nt = 500
    run.run_cases(MOD, cases(run.tier, run.seed), chunk=8)
    run.run_cases(MOD, cli_cases(run.tier), fnname="evaluate_cli", chunk=2)


def replay(case):
    if case.get("fam") == "cli":
        return evaluate_cli(case)["viol"]
    o, why, out = judge(case["doc"], case.get("reduced"), case["ndigits"], case["allow_text"], case["drop"], case.get("unsupported", False), case.get("entry", "fromstring"))
    if why:
        return [{"sig": {"kind": "grammar" if o == "returned" else "drop-unsupported-failed"}, "case": case, "detail": {"why": "; ".join(why), "output": out[:3000]}}]
    return []
