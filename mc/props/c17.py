"""C17 - conversion always terminates with a picosvg or an exception, never a hang.

E3: all small reference graphs (nodes = use / group-with-use / clipPath /
clipPath-with-use / gradient / symbol / clipped shape / gradient-filled shape /
plain shape; every reference slot pointing at nothing, itself, every other
node or a dangling id; nodes inside / outside defs), chains and doubling
chains, malformed numeric attribute values, DOCTYPE / entity documents.  Each
case runs under a CPU-time budget and an address-space limit in a sandboxed
fork; "returned" outputs must satisfy the picosvg grammar (R4); canary files
named by external entities must never be opened.
"""
import collections
import itertools
import os
import subprocess
import sys
import tempfile

from mc import core, sandbox
from mc.ref import picogrammar as R4

ID = "C17"
LEVEL = "exploration"
MOD = "mc.props.c17"

NS = 'xmlns="http://www.w3.org/2000/svg" xmlns:xlink="http://www.w3.org/1999/xlink"'
KINDS = ["U", "GU", "GUU", "CP", "CPU", "LG", "SC", "SF", "S", "SY"]
SLOT = {"U": "href", "GU": "href", "GUU": "href", "CP": "clip", "CPU": "href", "LG": "href", "SC": "clip", "SF": "fill", "S": None, "SY": None}
CPU_BUDGET = 10.0


def node_xml(i, kind, target):
    nid = f"n{i}"
    ref = None
    if target is not None:
        ref = "nope" if target == "dangling" else f"n{target}"
    href = f' xlink:href="#{ref}"' if ref else ""
    clip = f' clip-path="url(#{ref})"' if ref else ""
    fill = f' fill="url(#{ref})"' if ref else ""
    x = 10 + 15 * i
    if kind == "U":
        return f'<use id="{nid}"{href} x="{i + 1}" y="2"/>'
    if kind == "GU":
        return f'<g id="{nid}" opacity=".9"><rect x="{x}" y="5" width="8" height="8"/><use{href} x="3"/></g>'
    if kind == "GUU":
        return f'<g id="{nid}"><use{href} x="3"/><use{href} y="3"/><use{href} x="6" y="6"/><rect x="{x}" y="5" width="4" height="4"/></g>'
    if kind == "CP":
        return f'<clipPath id="{nid}"{clip}><rect x="{x - 5}" y="0" width="40" height="40"/></clipPath>'
    if kind == "CPU":
        return f'<clipPath id="{nid}"><use{href}/><circle cx="{x}" cy="20" r="15"/></clipPath>'
    if kind == "LG":
        stops = '<stop offset="0" stop-color="red"/><stop offset="1" stop-color="blue"/>' if i % 2 == 0 else ""
        return f'<linearGradient id="{nid}"{href} x1="0" x2="1">{stops}</linearGradient>'
    if kind == "SC":
        return f'<rect id="{nid}" x="{x}" y="30" width="20" height="20"{clip}/>'
    if kind == "SF":
        return f'<circle id="{nid}" cx="{x}" cy="60" r="9"{fill}/>'
    if kind == "S":
        return f'<path id="{nid}" d="M{x},70 h10 v10 z"/>'
    if kind == "SY":
        return f'<symbol id="{nid}"><rect width="4" height="4"/></symbol>'
    raise ValueError(kind)


def graph_doc(kinds, targets, places):
    defs, body = "", ""
    for i, (k, t, p) in enumerate(zip(kinds, targets, places)):
        x = node_xml(i, k, t)
        if p == "defs":
            defs += x
        else:
            body += x
    return f'<svg {NS} viewBox="0 0 100 100"><defs>{defs}</defs>{body}</svg>'


def target_options(i, n, kind):
    if SLOT[kind] is None:
        return [None]
    return [None, "dangling"] + list(range(n))  # includes itself


def has_cycle(kinds, targets):
    n = len(kinds)
    for s in range(n):
        seen = set()
        cur = s
        while isinstance(cur, int) and cur not in seen:
            seen.add(cur)
            cur = targets[cur]
        if isinstance(cur, int) and cur in seen:
            return True
    return False


def graph_cases(tier):
    ns = [1, 2] if tier == "quick" else [1, 2, 3]
    for n in ns:
        kind_alpha = KINDS if n <= 2 else ["U", "GU", "GUU", "CP", "CPU", "LG", "SC", "SF"]
        for kinds in itertools.product(kind_alpha, repeat=n):
            opts = [target_options(i, n, k) for i, k in enumerate(kinds)]
            if n <= 2:
                placements = list(itertools.product(("defs", "body"), repeat=n))
            else:
                placements = [("body",) + ("defs",) * (n - 1), ("body",) * n]
            yield {"fam": "graphs", "kinds": list(kinds), "opts": opts, "placements": [list(p) for p in placements]}


def chain_docs(tier):
    docs = []
    # straight use chains of length 1..5 ending in a shape, and ending in a cycle back to the head
    for L in (5, 6) if tier == "quick" else (6, 7):
        # longer branching cycles: each element refers twice / three times to the next (growth must stay bounded however many
        # distinct targets take part)
        for fan in (2, 3):
            cyc = "".join(f'<g id="u{i}"><rect width="2" height="2"/>' + f'<use xlink:href="#u{(i + 1) % L}" x="1"/>' * fan + "</g>" for i in range(L))
            docs.append(("branching-use-cycle", f'<svg {NS} viewBox="0 0 100 100"><defs>{cyc}</defs><use xlink:href="#u0"/></svg>'))
            selfref = "".join(f'<g id="u{i}"><rect width="2" height="2"/>' + f'<use xlink:href="#u{i}" x="1"/>' * fan + (f'<use xlink:href="#u{i + 1}"/>' if i + 1 < L else "") + "</g>" for i in range(L))
            docs.append(("selfref-chain", f'<svg {NS} viewBox="0 0 100 100"><defs>{selfref}</defs><use xlink:href="#u0"/></svg>'))
    # a self-referencing group next to n OTHER, innocent use targets (whatever bound depends on the number of targets must not
    # let the cyclic part grow in the meantime)
    for fan in (1, 2, 3, 4):
        for others in (1, 4, 10) if tier == "quick" else (1, 2, 4, 6, 10, 20):
            loop = '<g id="a"><rect width="2" height="2"/>' + "".join(f'<use xlink:href="#a" x="{3 * (i + 1)}" y="{i}"/>' for i in range(fan)) + "</g>"
            od = "".join(f'<rect id="s{i}" width="1" height="1"/>' for i in range(others))
            ob = "".join(f'<use xlink:href="#s{i}" x="{2 * i}" y="10"/>' for i in range(others))
            docs.append(("selfref-among-others", f'<svg {NS} viewBox="0 0 100 100"><defs>{loop}{od}</defs>{ob}<use xlink:href="#a"/></svg>'))
            docs.append(("selfref-among-idle-ids", f'<svg {NS} viewBox="0 0 100 100"><defs>{loop}{od}</defs><use xlink:href="#a"/></svg>'))
    for L in range(1, 6 if tier == "thorough" else 4):
        defs = "".join(f'<use id="u{i}" xlink:href="#u{i + 1}" x="1"/>' for i in range(L - 1)) + f'<use id="u{L - 1}" xlink:href="#leaf"/>'
        docs.append(("use-chain", f'<svg {NS} viewBox="0 0 100 100"><defs>{defs}<rect id="leaf" width="5" height="5"/></defs><use xlink:href="#u0"/></svg>'))
        cyc = "".join(f'<use id="u{i}" xlink:href="#u{(i + 1) % L}" x="1"/>' for i in range(L))
        docs.append(("use-cycle", f'<svg {NS} viewBox="0 0 100 100"><defs>{cyc}</defs><use xlink:href="#u0"/></svg>'))
        cyc = "".join(f'<g id="u{i}"><rect width="2" height="2"/><use xlink:href="#u{(i + 1) % L}" x="1"/></g>' for i in range(L))
        docs.append(("group-use-cycle", f'<svg {NS} viewBox="0 0 100 100"><defs>{cyc}</defs><use xlink:href="#u0"/></svg>'))
        for fan in (2, 3):
            cyc = "".join(f'<g id="u{i}"><rect width="2" height="2"/>' + f'<use xlink:href="#u{(i + 1) % L}" x="1"/>' * fan + "</g>" for i in range(L))
            docs.append(("branching-use-cycle", f'<svg {NS} viewBox="0 0 100 100"><defs>{cyc}</defs><use xlink:href="#u0"/></svg>'))
        cl = "".join(f'<clipPath id="c{i}" clip-path="url(#c{(i + 1) % L})"><rect width="{50 - i}" height="50"/></clipPath>' for i in range(L))
        docs.append(("clip-cycle", f'<svg {NS} viewBox="0 0 100 100"><defs>{cl}</defs><rect width="80" height="80" clip-path="url(#c0)"/></svg>'))
        gr = "".join(f'<linearGradient id="g{i}" xlink:href="#g{(i + 1) % L}"/>' for i in range(L))
        docs.append(("gradient-cycle", f'<svg {NS} viewBox="0 0 100 100"><defs>{gr}</defs><rect width="80" height="80" fill="url(#g0)" transform="translate(1 1)"/></svg>'))
    # the same cycles with one link / every link SPELLED differently (padded fragment, quoted url, upper case):
    # whatever spelling the instantiating code accepts, the cycle guard must accept too
    HS = ["#{} ", "# {}", " #{}", "#{}\t", "#{}&#10;"]
    US = ["url(#{} )", "url( #{})", "url('#{}')", 'url(&quot;#{}&quot;)', " url(#{})", "url(#{}) "]
    for L in (1, 2, 3):
        for which in (["last", "all"] if L > 1 else ["all"]):
            sel = (lambda i: True) if which == "all" else (lambda i: i == L - 1)
            for h in HS:
                ref = lambda i: (h if sel(i) else "#{}").format(f"u{(i + 1) % L}")
                cyc = "".join(f'<use id="u{i}" xlink:href="{ref(i)}" x="1"/>' for i in range(L))
                docs.append(("spelled-use-cycle", f'<svg {NS} viewBox="0 0 100 100"><defs>{cyc}</defs><use xlink:href="#u0"/></svg>'))
                cyc = "".join(f'<g id="u{i}"><rect width="2" height="2"/>' + f'<use xlink:href="{ref(i)}" x="1"/>' * 2 + "</g>" for i in range(L))
                docs.append(("spelled-branching-use-cycle", f'<svg {NS} viewBox="0 0 100 100"><defs>{cyc}</defs><use xlink:href="#u0"/></svg>'))
                cyc = "".join(f'<clipPath id="u{i}"><use xlink:href="{ref(i)}"/><rect width="9" height="9"/></clipPath>' for i in range(L))
                docs.append(("spelled-clip-use-cycle", f'<svg {NS} viewBox="0 0 100 100"><defs>{cyc}</defs><rect width="50" height="50" clip-path="url(#u0)"/></svg>'))
                gref = lambda i: (h if sel(i) else "#{}").format(f"g{(i + 1) % L}")
                gr = "".join(f'<linearGradient id="g{i}" xlink:href="{gref(i)}"/>' for i in range(L))
                docs.append(("spelled-gradient-cycle", f'<svg {NS} viewBox="0 0 100 100"><defs>{gr}</defs><rect width="80" height="80" fill="url(#g0)" transform="translate(1 1)"/></svg>'))
            # SVG 2 spelling: a plain href attribute instead of xlink:href on the selected link(s)
            att = lambda i: "href" if sel(i) else "xlink:href"
            cyc = "".join(f'<use id="u{i}" {att(i)}="#u{(i + 1) % L}" x="1"/>' for i in range(L))
            docs.append(("plainhref-use-cycle", f'<svg {NS} viewBox="0 0 100 100"><defs>{cyc}</defs><use xlink:href="#u0"/></svg>'))
            cyc = "".join(f'<g id="u{i}"><rect width="2" height="2"/>' + f'<use {att(i)}="#u{(i + 1) % L}" x="1"/>' * 2 + "</g>" for i in range(L))
            docs.append(("plainhref-branching-use-cycle", f'<svg {NS} viewBox="0 0 100 100"><defs>{cyc}</defs><use xlink:href="#u0"/></svg>'))
            docs.append(("plainhref-branching-use-cycle", f'<svg {NS} viewBox="0 0 100 100"><defs>{cyc}</defs><use href="#u0"/></svg>'))
            gr = "".join(f'<linearGradient id="g{i}" {att(i)}="#g{(i + 1) % L}"/>' for i in range(L))
            docs.append(("plainhref-gradient-cycle", f'<svg {NS} viewBox="0 0 100 100"><defs>{gr}</defs><rect width="80" height="80" fill="url(#g0)" transform="translate(1 1)"/></svg>'))
            # the xlink namespace declared where it is used (on the use / on a wrapper / under another prefix), not on the root
            NSL = 'xmlns="http://www.w3.org/2000/svg"'
            XL = 'xmlns:xl="http://www.w3.org/1999/xlink"'
            cyc = "".join(f'<use id="u{i}" {XL} xl:href="#u{(i + 1) % L}" x="1"/>' for i in range(L))
            docs.append(("localns-use-cycle", f'<svg {NSL} viewBox="0 0 100 100"><defs>{cyc}</defs><use {XL} xl:href="#u0"/></svg>'))
            cyc = "".join(f'<g id="u{i}"><rect width="2" height="2"/>' + f'<use xl:href="#u{(i + 1) % L}" x="1"/>' * 2 + "</g>" for i in range(L))
            docs.append(("localns-branching-use-cycle", f'<svg {NSL} viewBox="0 0 100 100"><g {XL}><defs>{cyc}</defs><use xl:href="#u0"/></g></svg>'))
            cyc = "".join(f'<use id="u{i}" xmlns:xlink="http://www.w3.org/1999/xlink" xlink:href="#u{(i + 1) % L}" x="1"/>' for i in range(L))
            docs.append(("localns-use-cycle", f'<svg {NSL} viewBox="0 0 100 100"><defs>{cyc}</defs><use xmlns:xlink="http://www.w3.org/1999/xlink" xlink:href="#u0"/></svg>'))
            gr = "".join(f'<linearGradient id="g{i}" {XL} xl:href="#g{(i + 1) % L}"/>' for i in range(L))
            docs.append(("localns-gradient-cycle", f'<svg {NSL} viewBox="0 0 100 100"><defs>{gr}</defs><rect width="80" height="80" fill="url(#g0)" transform="translate(1 1)"/></svg>'))
            for u in US:
                cref = lambda i: (u if sel(i) else "url(#{})").format(f"c{(i + 1) % L}")
                cl = "".join(f'<clipPath id="c{i}" clip-path="{cref(i)}"><rect width="{50 - i}" height="50"/></clipPath>' for i in range(L))
                docs.append(("spelled-clip-cycle", f'<svg {NS} viewBox="0 0 100 100"><defs>{cl}</defs><rect width="80" height="80" clip-path="{u.format("c0")}"/></svg>'))
    # doubling chain a_i -> 2 x a_{i+1}
    for depth in range(1, 5 if tier == "quick" else 7):
        defs = "".join(f'<g id="a{i}"><use xlink:href="#a{i + 1}" x="1"/><use xlink:href="#a{i + 1}" y="1"/></g>' for i in range(depth)) + f'<rect id="a{depth}" width="3" height="3"/>'
        docs.append(("doubling", f'<svg {NS} viewBox="0 0 100 100"><defs>{defs}</defs><use xlink:href="#a0"/></svg>'))
    return docs


BADVALS = ["", "abc", "1e999", "nan", "10px", "50%", "1,2", "-1", "  3  ", "1e999%", "nan%", "-inf%", "1e-999", "0x10", "+5", ".", "1e", "--1"]
NUMATTRS = [
    ("rect", 'x="1" y="1" width="10" height="10" rx="2" ry="2"', ["x", "y", "width", "height", "rx", "ry"]),
    ("circle", 'cx="5" cy="5" r="4"', ["cx", "cy", "r"]),
    ("ellipse", 'cx="5" cy="5" rx="4" ry="3"', ["cx", "cy", "rx", "ry"]),
    ("line", 'x1="0" y1="0" x2="9" y2="9" stroke="red"', ["x1", "y1", "x2", "y2"]),
    ("polygon", 'points="0,0 5,0 5,5"', ["points"]),
    ("path", 'd="M0,0 L5,0 L5,5 Z"', ["d"]),
    ("rect", 'x="1" y="1" width="10" height="10" opacity="0.5" fill-opacity="0.5" stroke="red" stroke-width="2" stroke-miterlimit="4" stroke-dashoffset="1" stroke-dasharray="2 1" stroke-opacity=".5" transform="translate(1 1)"', ["opacity", "fill-opacity", "stroke-width", "stroke-miterlimit", "stroke-dashoffset", "stroke-dasharray", "stroke-opacity", "transform"]),
]


def malformed_docs():
    docs = []
    for tag, attrs, names in NUMATTRS:
        for nm in names:
            for bv in BADVALS:
                import re

                a2 = re.sub(r'(^| )%s="[^"]*"' % re.escape(nm), r'\1%s="%s"' % (nm, bv), attrs)
                docs.append((f"malformed:{tag}.{nm}", f'<svg {NS} viewBox="0 0 100 100"><{tag} {a2}/></svg>'))
    for bv in BADVALS + ["0 0 100", "0 0 0 0", "a b c d"]:
        docs.append(("malformed:viewBox", f'<svg {NS} viewBox="{bv}"><rect width="5" height="5"/></svg>'))
        docs.append(("malformed:nested", f'<svg {NS} viewBox="0 0 100 100"><svg x="{bv}" width="10" height="10" viewBox="0 0 5 5"><rect width="5" height="5"/></svg></svg>'))
        docs.append(("malformed:nestedvb", f'<svg {NS} viewBox="0 0 100 100"><svg width="10" height="10" viewBox="{bv}"><rect width="5" height="5"/></svg></svg>'))
        docs.append(("malformed:use", f'<svg {NS} viewBox="0 0 100 100"><defs><rect id="r" width="5" height="5"/></defs><use xlink:href="#r" x="{bv}"/></svg>'))
        docs.append(("malformed:gradient", f'<svg {NS} viewBox="0 0 100 100"><defs><linearGradient id="g" x1="{bv}"><stop offset="0"/></linearGradient></defs><rect width="5" height="5" fill="url(#g)"/></svg>'))
        docs.append(("malformed:gradientTransform", f'<svg {NS} viewBox="0 0 100 100"><defs><linearGradient id="g" gradientTransform="{bv}"><stop offset="0"/></linearGradient></defs><rect width="5" height="5" fill="url(#g)" transform="scale(2)"/></svg>'))
        docs.append(("malformed:stop", f'<svg {NS} viewBox="0 0 100 100"><defs><linearGradient id="g"><stop offset="{bv}"/></linearGradient></defs><rect width="5" height="5" fill="url(#g)"/></svg>'))
        docs.append(("malformed:style", f'<svg {NS} viewBox="0 0 100 100"><rect width="5" height="5" style="{bv}"/></svg>'))
        docs.append(("malformed:clip", f'<svg {NS} viewBox="0 0 100 100"><rect width="5" height="5" clip-path="{bv}"/></svg>'))
        docs.append(("malformed:fill", f'<svg {NS} viewBox="0 0 100 100"><rect width="5" height="5" fill="url({bv})" transform="scale(2)"/></svg>'))
        docs.append(("malformed:par", f'<svg {NS} viewBox="0 0 100 100"><svg width="10" height="20" viewBox="0 0 5 5" preserveAspectRatio="{bv}"><rect width="5" height="5"/></svg></svg>'))
    # finite numbers whose PRODUCT overflows / underflows
    for ov in ("scale(1e200) scale(1e200)", "matrix(1e308 0 0 1e308 0 0) scale(10)", "translate(1e308) translate(1e308)", "scale(1e-200) scale(1e-200)", "rotate(1e308)"):
        docs.append(("malformed:overflow-gradientTransform", f'<svg {NS} viewBox="0 0 100 100"><defs><linearGradient id="g" gradientTransform="{ov}"><stop offset="0"/></linearGradient></defs><rect width="5" height="5" fill="url(#g)"/></svg>'))
        docs.append(("malformed:overflow-gradientTransform-xf", f'<svg {NS} viewBox="0 0 100 100"><defs><radialGradient id="g" gradientTransform="{ov}" gradientUnits="userSpaceOnUse" cx="5" cy="5" r="4"><stop offset="0"/></radialGradient></defs><rect width="5" height="5" fill="url(#g)" transform="scale(2)"/></svg>'))
        docs.append(("malformed:overflow-gradientTransform-us", f'<svg {NS} viewBox="0 0 100 100"><defs><linearGradient id="g" gradientUnits="userSpaceOnUse" x2="10" gradientTransform="{ov}"><stop offset="0" stop-color="red"/><stop offset="1" stop-color="blue"/></linearGradient></defs><rect width="5" height="5" fill="url(#g)"/></svg>'))
        docs.append(("malformed:overflow-transform", f'<svg {NS} viewBox="0 0 100 100"><g transform="{ov}"><rect width="5" height="5"/></g><rect width="5" height="5" transform="{ov}" stroke="red"/></svg>'))
        docs.append(("malformed:overflow-use", f'<svg {NS} viewBox="0 0 100 100"><defs><rect id="r" width="5" height="5"/></defs><use xlink:href="#r" transform="{ov}"/></svg>'))
    for vb in ("0 0 1e308 1e308", "0 0 1e-320 1e-320", "-1e308 -1e308 1e308 1e308"):
        docs.append(("malformed:overflow-viewBox", f'<svg {NS} viewBox="0 0 100 100"><svg x="1" y="1" width="50" height="50" viewBox="{vb}"><rect width="5" height="5"/></svg></svg>'))
        docs.append(("malformed:overflow-rootviewBox", f'<svg {NS} viewBox="{vb}"><defs><linearGradient id="g" x1="10%"><stop offset="0"/></linearGradient></defs><rect width="5" height="5" fill="url(#g)" stroke="red"/></svg>'))
    return docs


def oddroot_docs():
    """well-formed XML whose root is not an svg element"""
    body = '<rect width="5" height="5"/><g opacity=".5"><rect width="3" height="3"/><circle r="2"/></g>'
    docs = []
    for tag in ("g", "defs", "symbol", "clipPath", "linearGradient", "a", "switch"):
        docs.append((f"oddroot:{tag}", f'<{tag} {NS}>{body}</{tag}>'))
        docs.append((f"oddroot:{tag}-empty", f'<{tag} {NS}/>'))
    docs.append(("oddroot:rect", f'<rect {NS} width="5" height="5"/>'))
    docs.append(("oddroot:path", f'<path {NS} d="M0,0 L5,0 L5,5 Z"/>'))
    docs.append(("oddroot:use", f'<use {NS} xlink:href="#x"/>'))
    docs.append(("oddroot:nons", "<svg><rect width='5' height='5'/></svg>"))
    docs.append(("oddroot:foreign", '<html xmlns="http://www.w3.org/1999/xhtml"><body/></html>'))
    docs.append(("oddroot:svgprefix", f'<s:svg xmlns:s="http://www.w3.org/2000/svg" viewBox="0 0 10 10"><s:rect width="5" height="5"/></s:svg>'))
    return docs


def _convert(doc, probe):
    from picosvg.svg import SVG

    try:
        svg = SVG.fromstring(doc)
        probe(svg)
        out = svg.topicosvg(inplace=True).tostring()
        return {"outcome": "returned", "out": out}
    except Exception as e:  # noqa
        return {"outcome": "raised", "type": type(e).__name__, "msg": str(e)[:200]}


def judge(doc, label):
    r = sandbox.run_limited(_convert, doc, cpu_budget_s=CPU_BUDGET)
    v = r["verdict"]
    if v == "done":
        res = r["result"]
        if res["outcome"] == "returned":
            why = R4.validate(res["out"])
            if why:
                return "returned", f"returned a document that violates the picosvg grammar: {'; '.join(why)[:400]}", r
            return "returned", None, r
        if res["type"] == "MemoryError":
            # the 1 GiB address-space limit was hit and Python turned that into an exception: unbounded growth, not a rejection
            return "MEMORY", f"MemoryError under the {1} GiB address-space limit (the conversion grew without bound instead of rejecting the document)", r
        return "raised:" + res["type"], None, r
    if v in ("TIMEOUT", "MEMORY", "CRASH"):
        tr = r.get("trace") or []
        growth = "growing" if len(tr) >= 2 and tr[-1] > tr[0] else ("constant" if tr else "unknown")
        return v, f"{v} after {CPU_BUDGET}s CPU (element-count trace {tr[:12]}: {growth})", r
    return "HARNESS", f"sandbox failure: {r}", r


_WARM = False


def _warm():
    # first-use initialisation (regex caches, Skia, lxml xpath) belongs to the worker, not to every fork
    global _WARM
    if not _WARM:
        from mc.gen import docs as G
        from picosvg.svg import SVG

        for ks in (["use", "clipped", "lingrad"], ["stroked", "nestedsvg", "gop:rect+circle"]):
            SVG.fromstring(G.document(ks)).topicosvg()
        _WARM = True


def evaluate(case):
    _warm()
    outs = collections.Counter()
    nts = set()
    viols = []
    n = 0
    sample = None
    todo = []
    if case["fam"] == "graphs":
        kinds = case["kinds"]
        for targets in itertools.product(*case["opts"]):
            for places in case["placements"]:
                todo.append((graph_doc(kinds, targets, places), "graph", {"kinds": kinds, "targets": [str(t) for t in targets], "cycle": has_cycle(kinds, targets)}))
    else:
        for label, doc in case["docs"]:
            todo.append((doc, label, {"label": label}))
    for doc, label, meta in todo:
        n += 1
        o, why, r = judge(doc, label)
        outs[o] += 1
        if meta.get("cycle") or label != "graph" or any(t not in ("None",) for t in meta.get("targets", [])):
            nts.add(core.h64(doc))
        if sample is None and meta.get("cycle"):
            sample = {"doc": doc, "verdict": o}
        if why and len(viols) < 10:
            sig = {"kind": o if o in ("TIMEOUT", "MEMORY", "CRASH", "HARNESS") else "bad-output", "class": label.split(":")[0]}
            if label == "graph":
                use_cycle = False
                ks, ts = meta["kinds"], meta["targets"]
                sig["use_in_cycle"] = any(k in ("U", "GU", "GUU", "CPU") for k in ks) and meta["cycle"]
            viols.append({"sig": sig, "case": {"fam": "one", "doc": doc, "label": label}, "detail": {"why": why, "meta": meta}})
        elif why:
            outs["more-violations"] += 1
    return {"n": n, "outs": outs, "nts": nts, "viol": viols, "sample": sample}


# --- entities -----------------------------------------------------------------


def entity_docs(canary_dir):
    sysent = os.path.join(canary_dir, "canary.txt")
    dtd = os.path.join(canary_dir, "canary.dtd")
    laughs = "".join(f'<!ENTITY l{i} "&l{i - 1};&l{i - 1};&l{i - 1};">' for i in range(1, 5))
    return [
        ("internal", f'<?xml version="1.0"?><!DOCTYPE svg [<!ENTITY c "red">]><svg {NS} viewBox="0 0 10 10"><rect width="5" height="5" fill="&c;"/><title>&c;</title></svg>'),
        ("nested-internal", f'<?xml version="1.0"?><!DOCTYPE svg [<!ENTITY l0 "ha">{laughs}]><svg {NS} viewBox="0 0 10 10"><desc>&l4;</desc><rect width="5" height="5"/></svg>'),
        ("external-system", f'<?xml version="1.0"?><!DOCTYPE svg [<!ENTITY x SYSTEM "file://{sysent}">]><svg {NS} viewBox="0 0 10 10"><desc>&x;</desc><text>&x;</text><rect width="5" height="5" id="&x;"/></svg>'),
        ("external-system-attr", f'<?xml version="1.0"?><!DOCTYPE svg [<!ENTITY x SYSTEM "{sysent}">]><svg {NS} viewBox="0 0 10 10"><rect width="5" height="5"/><desc>&x;</desc></svg>'),
        ("external-dtd", f'<?xml version="1.0"?><!DOCTYPE svg SYSTEM "file://{dtd}"><svg {NS} viewBox="0 0 10 10"><rect width="5" height="5"/><desc>&fromdtd;</desc></svg>'),
        ("parameter-entity", f'<?xml version="1.0"?><!DOCTYPE svg [<!ENTITY % p SYSTEM "file://{dtd}"> %p;]><svg {NS} viewBox="0 0 10 10"><rect width="5" height="5"/></svg>'),
        # entity references in ELEMENT CONTENT (the parser leaves them unresolved as nodes of their own)
        ("content-entity", f'<?xml version="1.0"?><!DOCTYPE svg [<!ENTITY txt "hello">]><svg {NS} viewBox="0 0 10 10">&txt;<rect width="5" height="5"/><g opacity=".5">&txt;<rect width="3" height="3"/><circle r="2"/>&txt;</g><defs>&txt;</defs></svg>'),
        ("content-entity-markup", f'<?xml version="1.0"?><!DOCTYPE svg [<!ENTITY r "<rect xmlns=\'http://www.w3.org/2000/svg\' width=\'5\' height=\'5\'/>">]><svg {NS} viewBox="0 0 10 10"><g>&r;</g><circle r="2"/>&r;</svg>'),
        ("content-entity-clip", f'<?xml version="1.0"?><!DOCTYPE svg [<!ENTITY txt "x">]><svg {NS} viewBox="0 0 10 10"><defs><clipPath id="c">&txt;<rect width="5" height="5"/></clipPath><linearGradient id="g">&txt;<stop offset="0"/></linearGradient></defs><rect width="8" height="8" clip-path="url(#c)" fill="url(#g)"/></svg>'),
        ("public-dtd", f'<?xml version="1.0"?><!DOCTYPE svg PUBLIC "-//W3C//DTD SVG 1.1//EN" "file://{dtd}"><svg {NS} viewBox="0 0 10 10"><rect width="5" height="5"/></svg>'),
    ]


ENT_SCRIPT = r"""
import sys
import os
sys.path.insert(0, os.environ.get('VERIF_REPO', '/repo') + '/src')
from picosvg.svg import SVG
doc = open(sys.argv[1]).read()
try:
    print('OUT:' + SVG.fromstring(doc).topicosvg().tostring())
except Exception as e:
    print('EXC:' + type(e).__name__ + ':' + str(e)[:200])
"""


def run_entities(run):
    """each entity document in a fresh interpreter under strace (openat) - falls back to
    an inotify watch if ptrace is not permitted."""
    n = 0
    with tempfile.TemporaryDirectory() as td:
        token = "CANARY-TOKEN-7f3a"
        open(os.path.join(td, "canary.txt"), "w").write(token)
        open(os.path.join(td, "canary.dtd"), "w").write(f'<!ENTITY fromdtd "{token}">')
        have_strace = subprocess.run(["strace", "-o", "/dev/null", "true"], capture_output=True).returncode == 0
        for label, doc in entity_docs(td):
            n += 1
            f = os.path.join(td, f"in-{label}.svg")
            open(f, "w").write(doc)
            log = os.path.join(td, f"strace-{label}.log")
            cmd = [sys.executable, "-c", ENT_SCRIPT, f]
            watcher = None
            if have_strace:
                cmd = ["strace", "-f", "-e", "trace=open,openat,connect", "-o", log] + cmd
            else:
                watcher = subprocess.Popen(["inotifywait", "-m", "-e", "open,access", "--format", "%w%f %e", td], stdout=subprocess.PIPE, stderr=subprocess.DEVNULL, text=True)
                import time as _t

                _t.sleep(0.3)
            env = dict(os.environ)
            env["PYTHONPATH"] = os.environ.get("VERIF_REPO", "/repo") + "/src"
            try:
                p = subprocess.run(cmd, capture_output=True, text=True, timeout=120, env=env)
                out = p.stdout
                verdict = "returned" if "OUT:" in out else "raised"
            except subprocess.TimeoutExpired:
                out, verdict = "", "TIMEOUT"
            opened = False
            if have_strace and os.path.exists(log):
                opened = any("canary." in line and "ENOENT" not in line for line in open(log, errors="replace"))
            if watcher is not None:
                import time as _t

                _t.sleep(0.2)
                watcher.terminate()
                ev = watcher.stdout.read()
                opened = "canary." in ev
            run.out["entity:" + verdict] += 1
            run.evaluations += 1
            run.nt.add(core.h64(doc))
            why = None
            if verdict == "TIMEOUT":
                why = "entity document did not finish within 120 s"
            elif opened:
                why = "external entity / DTD canary file was opened during conversion"
            elif token in out:
                why = "canary content appears in the output"
            elif verdict == "returned":
                bad = R4.validate(out.split("OUT:", 1)[1].strip())
                if bad:
                    why = "returned a document that violates the picosvg grammar: " + "; ".join(bad)[:300]
            if why:
                run.add_violation({"kind": "entity", "class": label}, {"fam": "entity", "label": label}, {"why": why, "doc": doc.replace(td, "<tmp>")})
        run.cov["entity_monitor"] = "strace -f -e trace=open,openat,connect" if have_strace else "inotifywait"
    return n


def cases(tier, seed):
    yield from graph_cases(tier)
    ch = chain_docs(tier)
    for i in range(0, len(ch), 4):
        yield {"fam": "docs", "docs": ch[i : i + 4]}
    odd = oddroot_docs()
    for i in range(0, len(odd), 6):
        yield {"fam": "docs", "docs": odd[i : i + 6]}
    mal = malformed_docs()
    for i in range(0, len(mal), 25):
        yield {"fam": "docs", "docs": mal[i : i + 25]}


def run(run):
    run.rule = (
        "E3: all reference graphs with n <= 2 (quick) / 3 (thorough) nodes over kinds " + repr(KINDS) + " with every reference slot in {absent, dangling, itself, each other node} "
        "and nodes placed inside/outside defs; use / group-use / clip-path / gradient-href chains and cycles of length 1-3 (1-5), doubling chains of depth 1-4 (1-6); the same cycles of length 1-3 with one link / every link spelled differently (5 padded-fragment forms for href, 6 padded / quoted forms for url()); "
        f"{len(malformed_docs())} malformed-value documents (each numeric attribute x " + repr(BADVALS) + "); 10 DOCTYPE/entity documents (incl. entity references in element content) in a fresh interpreter under an open() monitor. "
        f"Each case: sandboxed fork, {CPU_BUDGET}s CPU-time budget (ITIMER_VIRTUAL), 1 GiB address space. Oracle: verdict in {{returned (must satisfy R4), raised}}; TIMEOUT/MEMORY/CRASH are violations; "
        "no canary file opened, no canary content in output. Non-trivial = document with at least one reference / malformed value / entity."
    )
    run.assumptions = [
        f"all generated documents expand to < 200 elements and acyclic ones convert in < 50 ms CPU, so the fixed {CPU_BUDGET}s budget exceeds 2 s + 50 x the acyclic time",
        "a timeout is evidence of a hang, not a proof of non-termination (the element-count trace distinguishes livelock from divergence)",
    ]
    run.floor_nt = 200
    run.run_cases(MOD, cases(run.tier, run.seed), chunk=1)
    run_entities(run)


def replay(case):
    if case.get("fam") == "one":
        o, why, r = judge(case["doc"], case.get("label", "graph"))
        if why:
            return [{"sig": {"kind": o}, "case": case, "detail": {"why": why}}]
    return []
