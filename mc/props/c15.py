"""C15 - an SVG object always equals its serialisation, whatever the operation history.

E1: explicit-state BFS over live SVG objects.  Alphabet = every public
operation that takes `inplace` (in-place and copy mode) + topicosvg(drop_unsupported)
+ append_to + read-only queries.  State canon = (tree bytes without flushing,
shape cache).  Per-transition oracle:
  1. lazy == eager: ser(a(s)) == ser(a(parse(ser(s))))
  2. copy mode: receiver unchanged, result is a new object equal to the in-place result on a re-parsed copy
  3. in-place mode returns the receiver
"""
import collections

from mc import core, explore

ID = "C15"
LEVEL = "model_checking"
MOD = "mc.props.c15"

NS = 'xmlns="http://www.w3.org/2000/svg" xmlns:xlink="http://www.w3.org/1999/xlink"'
ROOTS = {
    "shapes": f'<svg {NS} viewBox="0 0 100 100" width="100" height="100" fill="teal" stroke-width="3"><rect x="10" y="10" width="30" height="20" rx="4" fill="red" data-foo="bar"/><a xlink:href="#x" fill="blue"><rect x="50" y="60" width="40" height="4" rx="10" fill="black" stroke-width="1"/></a><path d="m50 10 h20 v15 s-5 5 -10 0 z M50,10 L55,12 L52,14 Z" fill-rule="evenodd" fill-opacity="0.5"/></svg>',
    "styleuse": f'<svg {NS} viewBox="0 0 100 100" width="100" height="100" style="fill:green"><defs><rect id="t" width="10" height="10" style="opacity:0.5"/></defs><use xlink:href="#t" x="5" y="5"/><use xlink:href="#t" transform="translate(40 40) scale(2)"/><ellipse cx="70" cy="20" rx="10" ry="5" style="fill:red;stroke:none"/><title>x</title></svg>',
    "groupstroke": f'<svg {NS} viewBox="0 0 100 100" width="100" height="100"><g opacity="0.5"><rect x="10" y="10" width="40" height="40" fill="red"/><circle cx="50" cy="50" r="20" fill="blue" stroke="black" stroke-width="3"/></g><line x1="0" y1="90" x2="100" y2="90" stroke="green" stroke-width="2"/><rect width="0" height="5"/></svg>',
    "nestclip": f'<svg {NS} viewBox="0 0 100 100" width="100" height="100"><defs><clipPath id="c"><circle cx="50" cy="50" r="30"/></clipPath></defs><svg x="10" y="10" width="50" height="50" viewBox="0 0 100 100"><rect x="-20" y="20" width="140" height="30" fill="purple"/></svg><rect x="20" y="20" width="60" height="60" fill="orange" clip-path="url(#c)"/><?pi x?><symbol><rect width="3" height="3"/></symbol></svg>',
    "gradxf": f'<svg {NS} viewBox="0 0 100 100" width="100" height="100"><defs><linearGradient id="g"><stop offset="0" stop-color="red"/><stop offset="1" stop-color="blue"/></linearGradient></defs><rect x="10" y="10" width="50" height="30" fill="url(#g)" transform="translate(5 5) rotate(10)"/><path d="M10,60 L40,60 L40,90 Z M-50,-50 L-40,-50 L-40,-40 Z" fill="url(#g)"/></svg>',
    "styled": f'<?xml-stylesheet href="a.css"?><svg xmlns="http://www.w3.org/2000/svg" viewBox="0 0 100 100" width="100" height="100"><g style="fill:red;stroke-width:3" id="g1"><rect x="5" y="5" width="30" height="20" style="stroke:blue;fill:green"/><g style="stroke:black"><circle cx="60" cy="30" r="12"/><path d="M10,60 h30 v20 z" style="stroke:none" fill="gold"/></g></g><rect x="60" y="60" width="20" height="20" fill="navy"/></svg>',
    "vpclip": f'<svg {NS} viewBox="0 0 100 100"><defs><clipPath id="c"><path d="M10,10 H60 V60 H10 Z M25,25 H45 V45 H25 Z"/></clipPath><rect id="t" width="12" height="9" fill="teal"/></defs><svg x="5" y="5" viewBox="0 0 50 50"><rect x="-10" y="10" width="70" height="12" fill="purple"/></svg><g clip-path="url(#c)"><rect x="5" y="5" width="70" height="70" fill="orange"/><use xlink:href="#t" x="20" y="30"/></g></svg>',
    "pico": f'<svg {NS} viewBox="0 0 100 100"><defs/><path d="M10,10 L40,10 L40,40 Z" fill="red"/><g opacity="0.5"><path d="M20,20 L60,20 L60,60 Z"/><path d="M30,30 L70,30 L70,70 Z" fill="blue"/></g></svg>',
}

INPLACE_OPS = [
    ("absolute", (), {}),
    ("shapes_to_paths", (), {}),
    ("expand_shorthand", (), {}),
    ("apply_style_attributes", (), {}),
    ("resolve_use", (), {}),
    ("simplify", (), {}),
    ("clip_to_viewbox", (), {}),
    ("evenodd_to_nonzero_winding", (), {}),
    ("round_floats", (2,), {}),
    ("remove_empty_subpaths", (), {}),
    ("remove_unpainted_shapes", (), {}),
    ("remove_nonsvg_content", (), {}),
    ("remove_processing_instructions", (), {}),
    ("remove_anonymous_symbols", (), {}),
    ("remove_title_meta_desc", (), {}),
    ("set_attributes", ((("width", "20"),),), {}),
    ("remove_attributes", (("height",),), {}),
    ("set_attributes", ((("fill", "teal"),),), {"xpath": "//svg:rect"}),
    ("set_attributes", ((("viewBox", "0 0 60 80"),),), {}),
    ("set_attributes", ((("clip-rule", "evenodd"),),), {"xpath": "//svg:clipPath/*"}),
    ("remove_attributes", (("fill",),), {"xpath": "//svg:rect | //svg:path"}),
    ("normalize_opacity", (), {}),
    ("resolve_nested_svgs", (), {}),
    ("topicosvg", (), {}),
    ("topicosvg", (), {"drop_unsupported": True}),
    ("remove_comments", (), {}),
]
QUERIES = ["shapes", "bounding_box", "view_box", "tolerance", "checkpicosvg", "checkpicosvg_drop", "tostring", "toetree", "depth_first", "breadth_first"]

# action ids, simplest first
ACTIONS = (
    [f"q:{q}" for q in QUERIES]
    + [f"i:{k}" for k in range(len(INPLACE_OPS))]
    + [f"c:{k}" for k in range(len(INPLACE_OPS))]
    + ["append_to"]
)


def action_name(a):
    if a.startswith(("i:", "c:")):
        n, args, kw = INPLACE_OPS[int(a[2:])]
        return f"{n}({', '.join([repr(x) for x in args] + [f'{k}={v}' for k, v in kw.items()] + ['inplace=' + str(a[0] == 'i')])})"
    return a


class HarnessNondeterminism(Exception):
    pass


def _svg(doc):
    from picosvg.svg import SVG

    return SVG.fromstring(doc)


def apply_action(obj, a):
    """-> (continuing object, returned value, exception or None)"""
    from lxml import etree
    from picosvg.svg import SVG

    try:
        if a.startswith("i:"):
            n, args, kw = INPLACE_OPS[int(a[2:])]
            ret = getattr(obj, n)(*args, inplace=True, **kw)
            return obj, ret, None
        if a.startswith("c:"):
            n, args, kw = INPLACE_OPS[int(a[2:])]
            ret = getattr(obj, n)(*args, **kw)
            return (ret if isinstance(ret, SVG) else obj), ret, None
        if a == "append_to":
            el = etree.Element("{http://www.w3.org/2000/svg}path", {"d": "M1,1 L2,2 L3,1 Z", "fill": "teal"})
            ret = obj.append_to("/svg:svg", el)
            return obj, ret, None
        q = a[2:]
        if q == "shapes":
            ret = obj.shapes()
        elif q == "bounding_box":
            ret = obj.bounding_box()
        elif q == "view_box":
            ret = obj.view_box()
        elif q == "tolerance":
            ret = obj.tolerance
        elif q == "checkpicosvg":
            ret = obj.checkpicosvg()
        elif q == "checkpicosvg_drop":
            ret = obj.checkpicosvg(drop_unsupported=True)
        elif q == "tostring":
            ret = obj.tostring()
        elif q == "toetree":
            ret = obj.toetree()
        elif q == "depth_first":
            ret = [c.path for c in obj.depth_first()]
        elif q == "breadth_first":
            ret = [c.path for c in obj.breadth_first()]
        else:
            raise KeyError(q)
        return obj, ret, None
    except Exception as e:  # noqa
        return obj, None, e


def build(root, hist):
    """Replay hist on a fresh object.  Returns None if some step raised (no state)."""
    obj = _svg(ROOTS[root])
    for a in hist:
        obj, ret, exc = apply_action(obj, a)
        if exc is not None:
            return None
    return obj


def canon(obj):
    from lxml import etree

    tree = etree.tostring(obj.svg_root)
    cache = []
    for el, shapes in obj.elements or []:
        p = el
        while p.getparent() is not None:
            p = p.getparent()
        where = el.getroottree().getpath(el) if p is obj.svg_root else "DETACHED"
        cache.append((where, tuple(repr(s) for s in shapes)))
    return core.hhex([tree.decode("utf-8", "replace"), cache])


def ser(obj):
    from lxml import etree

    return etree.canonicalize(obj.tostring())


def initial_canon(root):
    return canon(build(root, ()))


def _exc_name(e):
    return type(e).__name__ if e is not None else None


def transition(root, hist, a):
    viol = []
    case = {"root": root, "hist": list(hist), "action": a}

    def bad(kind, why, **extra):
        viol.append(
            {
                "sig": {"kind": kind, "action": action_name(a).split("(")[0], "mode": a[0]},
                "case": case,
                "detail": dict({"why": why, "history": [action_name(x) for x in hist] + [action_name(a)], "root_doc": ROOTS[root]}, **extra),
            }
        )

    objA = build(root, hist)
    objB = build(root, hist)
    if objA is None or objB is None:
        raise HarnessNondeterminism(f"replay of {hist} raised although it produced a state before")
    cA, cB = canon(objA), canon(objB)
    if cA != cB:
        raise HarnessNondeterminism(f"two replays of {hist} give different states")
    dirty = bool(objA.elements)
    # lazy side
    contA, retA, excA = apply_action(objA, a)
    # eager side: serialise, re-parse, apply
    ser_s = ser(objB)
    eager = _svg(objB.tostring())
    contB, retB, excB = apply_action(eager, a)
    info = {"outcome": "ok" if excA is None else "raised:" + _exc_name(excA), "dirty_before": dirty}
    succ = None
    if _exc_name(excA) != _exc_name(excB):
        bad("lazy!=eager", f"lazy object: {_exc_name(excA) or 'returned'} ({excA}); re-parsed object: {_exc_name(excB) or 'returned'} ({excB})")
    elif excA is None:
        succ = canon(contA)  # before ser(): serialising flushes the cache and would change the state
        try:
            sA = ser(contA)
            sB = ser(contB)
        except Exception as e:  # noqa
            sA, sB = "A", f"serialisation raised {type(e).__name__}: {e}"
        if sA != sB:
            bad("lazy!=eager", "document after the operation differs from the one obtained when the object is serialised and re-parsed first", lazy=sA[:3000], eager=sB[:3000])
        if a.startswith("i:"):
            if retA is not objA:
                bad("inplace-return", f"in-place operation returned {type(retA).__name__}, not the receiver")
        if a.startswith("c:"):
            from picosvg.svg import SVG

            objC = build(root, hist)
            contC, retC, excC = apply_action(objC, a)
            if excC is None:
                if retC is objC or not isinstance(retC, SVG):
                    bad("copy-return", f"copying operation returned {'the receiver' if retC is objC else type(retC).__name__}")
                else:
                    if ser(objC) != ser_s:
                        bad("copy-mutates-receiver", "receiver's serialisation changed by a copying operation", before=ser_s[:3000], after=ser(objC)[:3000])
                    # result equals in-place result on a re-parsed copy
                    eager2 = _svg(objB.tostring())
                    contD, retD, excD = apply_action(eager2, "i:" + a[2:])
                    if excD is None:
                        if ser(retC) != ser(contD):
                            bad("copy!=inplace-on-copy", "copying result differs from the in-place result on a re-parsed copy", copy=ser(retC)[:3000], inplace=ser(contD)[:3000])
                    else:
                        bad("copy!=inplace-on-copy", f"in-place form raised {_exc_name(excD)} where the copying form returned")
        if a.startswith("q:") and excA is None and sA != ser_s:
            info["query_changes_serialisation"] = True  # recorded, not judged
    return {"action": a, "succ": succ, "viol": viol, "info": info}


def run(run):
    roots = ["shapes", "styled", "vpclip"] if run.tier == "quick" else list(ROOTS)
    depth = 3 if run.tier == "quick" else 6
    budget = 900 if run.tier == "quick" else 1100  # quick is bounded by its depth; the time budget only binds on a heavily loaded machine
    run.rule = (
        f"E1 explicit-state BFS over live SVG objects from {len(roots)} root documents; alphabet of {len(ACTIONS)} actions "
        "(21 operation variants in in-place and copy mode, append_to, 10 queries); state = canonical (tree bytes without flush, shape cache); "
        "every (state, action) pair is executed and judged: lazy==eager, copy leaves receiver unchanged and equals in-place on a re-parsed copy, "
        "in-place returns the receiver. Successors of raising transitions are not expanded. Search is breadth-first to the depth bound or until the next "
        "level no longer fits the time budget (then exhaustive:false and the completed depth is reported)."
    )
    stats = explore.bfs(run, MOD, roots, ACTIONS, depth, budget)
    run.evaluations = stats["transitions"]
    run.cov["states"] = stats["states"]
    run.cov["transitions"] = stats["transitions"]
    run.cov["traces_validated_against_impl"] = stats["transitions"]
    run.cov["max_depth_completed"] = stats["max_depth_completed"]
    run.cov["closed_roots"] = stats["closed_roots"]
    run.cov["per_root"] = stats["per_root"]
    run.cov["alphabet"] = [action_name(a) for a in ACTIONS]
    dirty = sum(r["dirty_cache_before_action"] for r in stats["per_root"].values())
    run.cov["dirty_cache_fraction"] = round(dirty / max(1, stats["transitions"]), 3)
    run.exhaustive = all((r["closed"] or r["depth_completed"] >= depth) for r in stats["per_root"].values())
    run.cov["explanation"] = "every transition is an execution of the real SVG object; no separate model"
    # distinct non-trivial = transitions taken from a state with pending cached edits (distinct state,action)
    for rname, r in stats["per_root"].items():
        for k in range(r["dirty_cache_before_action"]):
            run.nt.add(core.h64(f"{rname}:{k}"))
    run.samples = [
        {"root": "shapes", "history": ["shapes_to_paths(inplace=True)", "round_floats(2, inplace=False)", "tostring"]},
        {"root": roots[-1], "history": [action_name(a) for a in ACTIONS[:: max(1, len(ACTIONS) // 5)]][:5]},
    ]
    run.floor_nt = 50
    if run.cov["dirty_cache_fraction"] < 0.25:
        run.notes.append("vacuity warning: < 25% of transitions started from a dirty cache")
    run.assumptions = [
        "two histories with equal canon (tree bytes + cache content) have equal futures: public methods read only svg_root and elements; the class-level lru_cache of _inherited_attrib is cleared before its only use",
        "queries are judged by lazy==eager only; whether a query changes the serialisation is recorded, not judged",
    ]


def replay(case):
    r = transition(case["root"], tuple(case["hist"]), case["action"])
    return r["viol"]
