"""C10 - path data parses per the SVG grammar or is rejected; printing round-trips.

Bounded-exhaustive enumeration (E2) against the reference grammar R1:
 (a) every string up to length L over a reduced 13-character alphabet, raw and
     behind the prefix "M1 1"
 (b) token level: command x lexical number forms x separator choice per gap
 (c) every single-character replacement/insertion from a hostile alphabet in
     a base set of strings
 (d) printer round trip SVGPath.from_commands -> iterate over a float set,
     singles and all ordered adjacent pairs.
"""
import itertools
import math
import sys

from mc import core
from mc.ref import pathdata as R1

ID = "C10"
LEVEL = "exploration"
MOD = "mc.props.c10"

ALPHA = "MzLA017.-+e, "
HOSTILE = ["b", "g", "E", "e", "_", "x", "#", "\x00", "١", "－", "i", "n", "N", "I", "Z", "m", "\t", "\n", "(", "%", "'", " ", "/", "--"]
NUMFORMS = ["0", "7", "07", "007", "1.5", ".5", "0.5", "1.", "-1", "+1", "1e2", "1e-2", "1E+2", ".5e1", "-.5", "00.5"]
SEPS = ["", " ", ",", " , ", "\t", "\n", ",,"]


def _impl():
    from picosvg.svg_path_iter import parse_svg_path

    return parse_svg_path


def _same_seq(got, want):
    if len(got) != len(want):
        return False
    for (gc, ga), (wc, wa) in zip(got, want):
        if gc != wc or len(ga) != len(wa):
            return False
        for x, y in zip(ga, wa):
            if not (x == y):
                return False
    return True


def judge_string(s, parse_svg_path):
    """-> (outcome, nontrivial_features or None, violation or None)"""
    try:
        ref, toks = R1.parse(s, want_tokens=True)
        acc = True
    except R1.Reject:
        acc = False
    viol = None
    outcome = None
    for expl in (True, False):
        try:
            got = list(parse_svg_path(s, exploded=expl))
            o = "returned"
        except ValueError:
            got = None
            o = "ValueError"
        except Exception as e:  # noqa
            got = None
            o = "raised:" + type(e).__name__
            viol = {
                "sig": {"kind": "wrong-exception", "type": type(e).__name__},
                "case": {"fam": "string", "s": s},
                "detail": {"why": f"parse_svg_path({s!r}, exploded={expl}) raised {type(e).__name__}: {e}"},
            }
        if outcome is None:
            outcome = ("acc/" if acc else "rej/") + o
        if acc and got is not None:
            want = R1.exploded(ref) if expl else R1.unexploded(ref)
            if not _same_seq(got, want):
                feats = sorted(R1.features(s, toks))
                viol = {
                    "sig": {"kind": "silent-misparse", "features": ",".join(feats)},
                    "case": {"fam": "string", "s": s},
                    "detail": {
                        "why": f"grammar-conforming {s!r} (exploded={expl}) parsed as {got!r}, grammar says {want!r}",
                        "got": repr(got),
                        "want": repr(want),
                    },
                }
    nt = None
    if acc:
        feats = R1.features(s, toks)
        if feats & {"adjacent", "leadingzero", "exponent", "compactflag", "baredot", "wsp"}:
            nt = s
    return outcome, nt, viol


# ---------------------------------------------------------------------------
# block evaluation (a block = many strings, enumerated inside the worker)


def _strings_a(prefix, length):
    """all strings of exactly `length` chars over ALPHA starting with prefix"""
    rest = length - len(prefix)
    if rest < 0:
        return
    for tail in itertools.product(ALPHA, repeat=rest):
        yield prefix + "".join(tail)


def _block_strings(case):
    fam = case["fam"]
    if fam == "a":
        for s in _strings_a(case["prefix"], case["len"]):
            yield s
            yield "M1 1" + s
    elif fam == "b":
        cmd, forms0 = case["cmd"], case["first"]
        n = case["n"]
        forms, seps = case["forms"], case["seps"]
        for rest in itertools.product(forms, repeat=n - 1):
            nums = (forms0,) + rest
            for sp in itertools.product(seps, repeat=n - 1):
                body = nums[0]
                for k in range(1, n):
                    body += sp[k - 1] + nums[k]
                for lead in ("", " "):
                    yield cmd + lead + body
    elif fam == "arc":
        rx = case["rx"]
        forms, seps, fseps = case["forms"], case["seps"], case["fseps"]
        for ry, rot, x, y in itertools.product(forms, case["rots"], forms, forms):
            for sp in seps:
                for f1, f2 in (("0", "0"), ("0", "1"), ("1", "0"), ("1", "1")):
                    for g1, g2, g3 in itertools.product(fseps, repeat=3):
                        yield "M0 0A" + rx + sp + ry + sp + rot + g1 + f1 + g2 + f2 + g3 + x + sp + y
    elif fam == "c":
        base = case["base"]
        for pos in range(len(base) + 1):
            for h in HOSTILE:
                yield base[:pos] + h + base[pos:]
                if pos < len(base):
                    yield base[:pos] + h + base[pos + 1 :]
            if pos < len(base):
                yield base[:pos] + base[pos + 1 :]
    elif fam == "list":
        yield from case["strings"]
    else:
        raise ValueError(fam)


def evaluate(case):
    if case["fam"] == "d":
        return evaluate_roundtrip(case)
    parse_svg_path = _impl()
    import collections

    outs = collections.Counter()
    nts = set()
    viols = []
    n = 0
    sample = None
    for s in _block_strings(case):
        n += 1
        o, nt, v = judge_string(s, parse_svg_path)
        outs[o] += 1
        if nt is not None:
            nts.add(core.h64(nt))
            if sample is None:
                sample = nt
        if v is not None and len(viols) < 20:
            viols.append(v)
        elif v is not None:
            outs["more-violations"] += 1
    return {"n": n, "outs": outs, "nts": nts, "viol": viols, "sample": sample}


# ---------------------------------------------------------------------------
# (d) printer round trip


def float_set(tier):
    vals = [0.0, -0.0, 1.0, 0.5, 0.1, 1 / 3, 2 / 3, 123456789.12345678, 0.30000000000000004, 1e16 + 2, 9007199254740993.0]
    ks = [-7, -6, -5, -4, -3, 0, 3, 15, 16, 17, 20, 21, 22, 23, 100, 300] if tier == "quick" else list(range(-8, 25)) + [50, 100, 200, 300, 307, 308, -100, -300, -307]
    for k in ks:
        for m in (1.0, 1.5, 9.999999999999999, 1.2345678901234567):
            try:
                v = float(f"{m}e{k}")
            except Exception:
                continue
            if math.isfinite(v):
                vals.append(v)
    vals += [5e-324, 2.2250738585072014e-308, 2.225073858507201e-308, 1.7976931348623157e308, 4.9e-324 * 3, 1e-323]
    vals += [float(i) for i in (7, 10, 100, 12345678901234567890)]
    out = []
    seen = set()
    for v in vals:
        for w in (v, -v):
            r = repr(w)
            if r not in seen:
                seen.add(r)
                out.append(w)
    return out


_COORD_ARGS = {"m": 2, "l": 2, "h": 1, "v": 1, "c": 6, "s": 4, "q": 4, "t": 2, "a": 7}


def _rt_one(cmds, SVGPath):
    try:
        path = SVGPath.from_commands(cmds)
        got = list(path)
    except Exception as e:  # noqa
        return "raised:" + type(e).__name__, f"{type(e).__name__}: {e}", None
    want = [(c, tuple(a)) for c, a in cmds]
    if not _same_seq(got, want):
        return "returned", f"d={path.d!r} parsed back as {got!r}", path.d
    return "returned", None, path.d


def evaluate_roundtrip_long(case):
    """one command carrying n argument sets (printed as one run of numbers): serialise, parse back"""
    import collections

    from picosvg.svg_types import SVGPath

    outs = collections.Counter()
    nts = set()
    viols = []
    n = 0
    for sets in (1, 2, 3, 64, 128, 129, 130, 257, 300):
        for cmd in "LlTtHhVvCcSsQqAa":
            na = _COORD_ARGS[cmd.lower()]
            args = []
            for k in range(sets):
                a = [float((k * 7 + j * 3) % 19) + 0.5 * (j % 2) for j in range(na)]
                if cmd in "Aa":
                    a[3], a[4] = k % 2, (k // 2) % 2
                args += a
            cmds = [("M", (2.0, 3.0)), (cmd, tuple(args)), ("z", ())]
            n += 1
            # iterating a path yields one command per argument set
            want = [("M", (2.0, 3.0))] + [(cmd, tuple(args[i : i + na])) for i in range(0, len(args), na)] + [("z", ())]
            try:
                path = SVGPath.from_commands(cmds)
                got = list(path)
                o, d = "returned", path.d
                why = None if _same_seq(got, want) else f"d={path.d[:200]!r}... ({sets} argument sets) parsed back as {len(got)} commands: {got[:4]!r}..."
            except Exception as e:  # noqa
                o, why, d = "raised:" + type(e).__name__, f"{type(e).__name__}: {str(e)[:300]}", None
            outs["long/" + o] += 1
            nts.add(core.h64(repr((cmd, sets))))
            if why and len(viols) < 10:
                viols.append({"sig": {"kind": "roundtrip", "outcome": o, "long": True}, "case": {"fam": "rt", "cmds": [[c, list(x)] for c, x in cmds]}, "detail": {"why": why[:600]}})
    return {"n": n, "outs": outs, "nts": nts, "viol": viols, "sample": None}


def evaluate_roundtrip(case):
    import collections

    from picosvg.svg_types import SVGPath

    if case.get("mode") == "long":
        return evaluate_roundtrip_long(case)

    vals = case["vals"]
    a = case["a"]
    outs = collections.Counter()
    nts = set()
    viols = []
    n = 0
    sample = None
    for cmd in "MmLlHhVvCcSsQqTtAa":
        na = _COORD_ARGS[cmd.lower()]
        positions = range(na) if case["mode"] == "single" else range(max(na - 1, 0))
        for pos in positions:
            if cmd in "Aa" and pos in (3, 4) or (case["mode"] == "pair" and cmd in "Aa" and pos in (2, 3, 4)):
                continue  # flags are not floats
            bs = [None] if case["mode"] == "single" else vals
            for b in bs:
                args = [1.0] * na
                if cmd in "Aa":
                    args[3], args[4] = 0, 1
                args[pos] = a
                if b is not None:
                    args[pos + 1] = b
                lead = [] if cmd in "Mm" else [("M", (2.0, 3.0))]
                for tail in ((), (("L", (4.0, 5.0)),), (("z", ()),)):
                    cmds = lead + [(cmd, tuple(args))] + list(tail)
                    if cmd == "m" and not lead:
                        cmds = [("M", (2.0, 3.0))] + cmds
                    n += 1
                    o, why, d = _rt_one(cmds, SVGPath)
                    outs[o] += 1
                    nts.add(core.h64(repr((cmd, pos, a, b))))
                    if sample is None and d:
                        sample = d
                    if why and len(viols) < 10:
                        viols.append(
                            {
                                "sig": {"kind": "roundtrip", "outcome": o},
                                "case": {"fam": "rt", "cmds": [[c, list(x)] for c, x in cmds]},
                                "detail": {"why": why},
                            }
                        )
    return {"n": n, "outs": outs, "nts": nts, "viol": viols, "sample": sample}


# ---------------------------------------------------------------------------


def _base_strings():
    base = [
        "M1 2L3 4z",
        "M1,2 3,4",
        "m1-2.5.5e1 3",
        "M0 0A1 1 0 0110 5",
        "M0 0a1,1 30 1,0 5,5z",
        "M1e2-3C1 2 3 4 5 6",
        "M.5.5h1v-1H0V0",
        "M1 2S3 4 5 6T7 8",
        "M10-20Q1 2 3 4t5 6Z",
        "M+1+2l-.1-.2",
    ]
    return base


def _token_split(s):
    import re

    return re.findall(r"[A-Za-z]|[-+]?(?:\d+\.?\d*|\.\d+)(?:[eE][-+]?\d+)?|,", s)


def wsp_placement_strings():
    """every whitespace character (and CR LF, a run of blanks) inserted at every token boundary of the base strings - before and
    after command letters, between numbers, at the very start and the very end"""
    out = []
    for b in _base_strings() + ["M0 0a11.78 10.28 0 10.044 6.1", "M5 5A1 1 0 01.05.5 2 2 0 10.5.25", "M1 1L2 2Z M3 3 4 4z"]:
        toks = _token_split(b)
        out.append(b)
        for w in (" ", "\t", "\n", "\r", "\r\n", "   ", "\n\t "):
            for i in range(len(toks) + 1):
                out.append(_join_tokens(toks[:i]) + w + _join_tokens(toks[i:]))
            out.append(w.join(toks))
    return out


def _join_tokens(toks):
    """concatenate tokens, putting a blank only where two numbers would otherwise fuse"""
    s = ""
    for t in toks:
        if s and (s[-1].isdigit() or s[-1] == ".") and (t[0].isdigit() or t[0] == "."):
            s += " "
        s += t
    return s


def long_command_strings():
    """one command carrying many argument sets (implicit repetition): 129, 257, 300 coordinate pairs; many short commands"""
    out = []
    for n in (128, 129, 130, 257, 300):
        pts = " ".join(f"{i % 17},{(i * 7) % 23}" for i in range(n))
        out += ["M" + pts, "M0 0L" + pts + "z", "M0,0 l" + pts.replace(",", " "), "M0 0T" + pts, "M1 1" + "".join(f"L{i} {i + 1}" for i in range(n))]
        out.append("M0 0C" + " ".join(f"{i} {i + 1} {i + 2} {i} {i + 3} {i + 1}" for i in range(n // 2)))
        out.append("M0 0A" + " ".join(f"{1 + i % 3} 2 0 0 1 {i + 1} {i}" for i in range(n // 3)))
    return out


def cases(tier, seed):
    ws = wsp_placement_strings()
    for i in range(0, len(ws), 200):
        yield {"fam": "list", "strings": ws[i : i + 200]}
    yield {"fam": "list", "strings": long_command_strings()}
    yield {"fam": "d", "mode": "long"}
    L = 5 if tier == "quick" else 6
    # (a): blocks keyed by the first two characters
    for length in range(0, L + 1):
        if length <= 2:
            yield {"fam": "list", "strings": [x for s in ("".join(t) for t in itertools.product(ALPHA, repeat=length)) for x in (s, "M1 1" + s)]}
        else:
            for p in itertools.product(ALPHA, repeat=2):
                yield {"fam": "a", "prefix": "".join(p), "len": length}
    # (b)
    cmds_pairs = ["M", "M0 0L", "M0 0l", "M0 0T"]
    cmds_single = ["M0 0h", "M0 0V"]
    redf = ["0", "7", "007", ".5", "1.", "-1", "1e-2", "00.5"]
    reds = ["", " ", ",", "\n"]
    for cmd in cmds_pairs:
        for f0 in NUMFORMS:
            yield {"fam": "b", "cmd": cmd, "first": f0, "n": 2, "forms": NUMFORMS, "seps": SEPS}
            if tier == "thorough":
                yield {"fam": "b", "cmd": cmd, "first": f0, "n": 4, "forms": redf, "seps": reds}
            else:
                if f0 in redf:
                    yield {"fam": "b", "cmd": cmd, "first": f0, "n": 4, "forms": redf[:5], "seps": reds[:3]}
    for cmd in cmds_single:
        for f0 in NUMFORMS:
            yield {"fam": "b", "cmd": cmd, "first": f0, "n": 1, "forms": NUMFORMS, "seps": SEPS}
            yield {"fam": "b", "cmd": cmd, "first": f0, "n": 2, "forms": NUMFORMS, "seps": SEPS}
            yield {"fam": "b", "cmd": cmd, "first": f0, "n": 3, "forms": NUMFORMS if tier == "thorough" else redf, "seps": SEPS if tier == "thorough" else reds}
    for f0 in redf:
        yield {"fam": "b", "cmd": "M0 0C", "first": f0, "n": 6, "forms": ["7", ".5", "-1"] if tier == "quick" else ["7", ".5", "-1", "007"], "seps": ["", " "] if tier == "quick" else ["", " ", ","]}
    aforms = ["7", ".5", "1e1"] if tier == "quick" else ["7", ".5", "1e1", "07", "1."]
    for rx in aforms:
        yield {"fam": "arc", "rx": rx, "forms": aforms, "rots": ["0", "30", "-5"] if tier == "thorough" else ["0", "30"], "seps": [" ", ","] if tier == "quick" else [" ", ",", "\n"], "fseps": ["", " ", ","]}
    # (c)
    bases = list(_base_strings())
    for k, f in enumerate(NUMFORMS):
        bases.append("M" + f + " " + NUMFORMS[(k + 5) % len(NUMFORMS)] + "L" + NUMFORMS[(k + 3) % len(NUMFORMS)] + "," + f)
    if tier == "thorough":
        for k, f in enumerate(NUMFORMS):
            bases.append("M0 0A" + f.lstrip("-+") + " 2 " + f + " 01" + f + " " + NUMFORMS[(k + 7) % len(NUMFORMS)])
    for b in bases:
        yield {"fam": "c", "base": b}
    # (d)
    vals = float_set(tier)
    for a in vals:
        yield {"fam": "d", "mode": "single", "a": a, "vals": None}
    pv = vals if tier == "thorough" else vals[: 70]
    for a in pv:
        yield {"fam": "d", "mode": "pair", "a": a, "vals": pv}


def run(run):
    run.rule = (
        "E2 bounded-exhaustive: (a) every string of length <= L over the 13-char alphabet "
        + repr(ALPHA)
        + " raw and behind 'M1 1'; (b) command x lexical number forms x separator per gap; (c) all single "
        "hostile-character replacements/insertions/deletions in a base set; (d) from_commands->parse round trip over a "
        "float set (singles, all ordered adjacent pairs). Oracle: greedy recursive-descent parser for the SVG path BNF (R1). "
        "Non-trivial = R1 accepts the string and it contains a separator-less adjacency, leading zero, exponent, bare dot, "
        "non-space whitespace or compact flag (a-c); distinct (command, position, value[, value]) round-trip tuples (d)."
    )
    L = 5 if run.tier == "quick" else 6
    run.cov["bounds"] = {
        "max_string_length": L,
        "alphabet": ALPHA,
        "number_forms": NUMFORMS,
        "separators": SEPS,
        "hostile_alphabet": HOSTILE,
        "float_set_size": len(float_set(run.tier)),
    }
    run.assumptions = [
        "alphabet reduction: digits other than 0/1/7 and commands other than M z L A (+ l T h V C in family b) "
        "take the same path through the tokenizer's regular expressions (by inspection of svg_path_iter.py)",
        "a string conforming to either the SVG 1.1 or the SVG 2 path grammar counts as conforming (both give it the same meaning)",
    ]
    run.floor_nt = 1000
    run.run_cases(MOD, cases(run.tier, run.seed), chunk=4)


def replay(case):
    if case.get("fam") == "string":
        o, nt, v = judge_string(case["s"], _impl())
        return [v] if v else []
    if case.get("fam") == "rt":
        from picosvg.svg_types import SVGPath

        cmds = [(c, tuple(a)) for c, a in case["cmds"]]
        o, why, d = _rt_one(cmds, SVGPath)
        return [{"sig": {"kind": "roundtrip", "outcome": o}, "case": case, "detail": {"why": why}}] if why else []
    rec = evaluate(case)
    return rec["viol"]
