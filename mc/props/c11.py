"""C11 - transform strings and affine algebra follow the SVG specification.

E2 against R2 (mc/ref/affine.py):
 (a) transform lists: products of per-operation variants x separator styles
 (b) algebra on the real Affine2D instantiated with exact int / Fraction entries
     over finite lattices: all matrices of a 6^6 lattice (inverse, map_point,
     tostring/fromstring), all ordered pairs of a 3^6 (4^6) lattice (compose order),
     triples of a sparse set (associativity)
 (c) rect_to_rect: all src/dst pairs of a rectangle lattice x 10 alignments x meet/slice
 (d) decompose_scale / decompose_translation on the non-degenerate lattice
"""
import collections
import itertools
import math
from fractions import Fraction as Fr

from mc import core
from mc.ref import affine as R2

ID = "C11"
LEVEL = "exploration"
MOD = "mc.props.c11"

# ---------------------------------------------------------------------------
# (a) transform lists

OPV = {
    # magnitudes: powers of two far from 1 (exact in binary floating point, so the specification product is exact too):
    # a translation of 2^-40 behind a scale of 2^40 moves the origin by exactly 1
    "mag": [
        ("translate", [2.0 ** -40]),
        ("translate", [3 * 2.0 ** -35, -(2.0 ** -33)]),
        ("translate", [2.0 ** 40, 1]),
        ("translate", [0, 2.0 ** -31]),
        ("scale", [2.0 ** 40]),
        ("scale", [2.0 ** -40, 2.0 ** -20]),
        ("scale", [1]),
        ("matrix", [2.0 ** -30, 0, 0, 2.0 ** -30, 2.0 ** -31, 0]),
        ("matrix", [2.0 ** 35, 0, 0, 2.0 ** 33, 0, 2.0 ** -29]),
    ],
    "full": [
        ("matrix", [1, 0, 0, 1, 0, 0]),
        ("matrix", [0.5, 1, -2, 0.5, 30, 1e1]),
        ("matrix", [0, 1, 1, 0, -2, 90]),
        ("translate", [30]),
        ("translate", [0]),
        ("translate", [-2, 0.5]),
        ("translate", [1e1, 90]),
        ("translate", [0, 1]),
        ("scale", [-2]),
        ("scale", [0.5]),
        ("scale", [0]),
        ("scale", [1, -2]),
        ("scale", [0.5, 30]),
        ("rotate", [30]),
        ("rotate", [90]),
        ("rotate", [-2]),
        ("rotate", [0]),
        ("rotate", [30, 1, -2]),
        ("rotate", [90, 0.5, 1e1]),
        ("rotate", [1e1, 0, 0]),
        ("skewX", [30]),
        ("skewX", [-2]),
        ("skewX", [0]),
        ("skewY", [30]),
        ("skewY", [0.5]),
        ("skewY", [1e1]),
    ],
    "mid": [
        ("matrix", [0.5, 1, -2, 0.5, 30, 1e1]),
        ("translate", [30]),
        ("translate", [-2, 0.5]),
        ("scale", [-2]),
        ("scale", [0.5, 30]),
        ("rotate", [30]),
        ("rotate", [90, 0.5, 1e1]),
        ("skewX", [30]),
        ("skewY", [-2]),
    ],
    "small": [("translate", [-2, 0.5]), ("scale", [0.5, 30]), ("rotate", [30, 1, -2]), ("skewX", [30]), ("skewY", [1e1]), ("matrix", [0, 1, 1, 0, -2, 90])],
}
# (between-args, between-ops, pre-paren, pad)
SEPSTYLES = [(",", " ", "", ""), (" ", ",", "", ""), (", ", " , ", " ", " "), ("\n", "\n", "", "\t"), (" , ", "", "", ""), ("\t", "  ", "\n", " "), ("\r\n", " \n", "  \t", "\n ")]


def numstr(v, style):
    if isinstance(v, float) and v == 1e1:
        return "1e1" if style % 2 == 0 else "1E+1"
    if v == 0.5:
        return ".5" if style % 3 == 0 else "0.5"
    if isinstance(v, float) and v.is_integer():
        return str(int(v))
    s = str(v)
    if style % 5 == 4 and not s.startswith("-"):
        s = "+" + s
    return s


def build_list(ops, style_idx):
    argsep, opsep, prep, pad = SEPSTYLES[style_idx]
    parts = []
    for name, args in ops:
        parts.append(name + prep + "(" + pad + argsep.join(numstr(a, style_idx) for a in args) + pad + ")")
    return opsep.join(parts)


def judge_list(ops, style_idx, Affine2D):
    s = build_list(ops, style_idx)
    want_ops = R2.parse_transform_list(s)  # the grammar's reading of the string itself
    assert [(n, [float(x) for x in a]) for n, a in ops] == want_ops, (ops, want_ops, s)
    want = R2.list_matrix(want_ops)
    try:
        got = Affine2D.fromstring(s)
    except Exception as e:  # noqa
        return s, "raised:" + type(e).__name__, f"fromstring({s!r}) raised {type(e).__name__}: {e}"
    exact = all(n in ("matrix", "translate", "scale") for n, _ in ops)
    scale = max(1.0, max(abs(x) for x in want))
    tol = 0.0 if exact else 1e-9 * scale
    bad = [i for i in range(6) if abs(got[i] - want[i]) > tol]
    if bad:
        return s, "returned", f"fromstring({s!r}) = {tuple(got)!r}, specification product = {tuple(want)!r}"
    # left-to-right composition law on the same list
    singles = [Affine2D.fromstring(build_list([op], style_idx)) for op in ops]
    p = (3.0, -7.0)
    q = p
    for m in reversed(singles):  # the last listed transform is applied to the point first
        q = m.map_point(q)
    r = got.map_point(p)
    if abs(q[0] - r[0]) > 1e-6 * scale * 10 or abs(q[1] - r[1]) > 1e-6 * scale * 10:
        return s, "returned", f"mapping {p} through the list {s!r} gives {tuple(r)}, op by op gives {tuple(q)}"
    return s, "returned", None


# ---------------------------------------------------------------------------
# (b) algebra


def lattice6(vals):
    return list(itertools.product(vals, repeat=6))


L_SINGLE = [Fr(-2), Fr(-1), Fr(0), Fr(1, 2), Fr(1), Fr(3)]
L_PAIR_Q = [-1, 0, 2]
L_PAIR_T = [-1, 0, Fr(1, 2), 2]
PTS = [(1, 2), (-3, 5)]


def eq6(a, b):
    return all(x == y for x, y in zip(a, b))


def judge_single(m, Affine2D):
    A = Affine2D(*m)
    why = []
    if A.determinant() != R2.det(m):
        why.append(f"determinant {A.determinant()} != {R2.det(m)}")
    for p in PTS:
        if tuple(A.map_point(p)) != R2.apply(m, p):
            why.append(f"map_point{p} = {tuple(A.map_point(p))} != {R2.apply(m, p)}")
        v = A.map_vector(p)
        if tuple(v) != R2.apply((m[0], m[1], m[2], m[3], 0, 0), p):
            why.append(f"map_vector{p} wrong")
    ri = R2.inv(m)
    Ai = A.inverse()
    if ri is None:
        if not A.is_degenerate():
            why.append("is_degenerate() false for det 0")
        if tuple(Ai) != (0, 0, 0, 0, 0, 0):
            why.append(f"inverse of degenerate matrix is {tuple(Ai)}, not the degenerate transform")
    else:
        if A.is_degenerate():
            why.append("is_degenerate() true for det != 0")
        if not eq6(Ai, ri):
            why.append(f"inverse {tuple(Ai)} != {ri}")
        if not eq6(A @ Ai, R2.I) or not eq6(Ai @ A, R2.I):
            why.append("M x M^-1 != identity")
        for p in PTS:
            if tuple(Ai.map_point(A.map_point(p))) != p:
                why.append("inverse does not undo map_point")
    # string round trip on floats
    F = Affine2D(*(float(x) for x in m))
    try:
        s = F.tostring()
        G = Affine2D.fromstring(s)
        if tuple(G) != tuple(F):
            why.append(f"fromstring(tostring()) = {tuple(G)} via {s!r}")
        # grammar: the emitted string must be a conforming transform list with the same meaning
        ops = R2.parse_transform_list(s)
        if tuple(R2.list_matrix(ops)) != tuple(F):
            why.append(f"tostring() {s!r} means {R2.list_matrix(ops)} under the specification")
    except Exception as e:  # noqa
        why.append(f"string round trip raised {type(e).__name__}: {e}")
    return why


def judge_pair(a, b, Affine2D):
    A, B = Affine2D(*a), Affine2D(*b)
    why = []
    C = Affine2D.compose_ltr((A, B))
    want = R2.mul(b, a)  # A first, then B
    if not eq6(C, want):
        why.append(f"compose_ltr((A,B)) = {tuple(C)} != B x A = {want}")
    if not eq6(A @ B, R2.mul(a, b)):
        why.append(f"A @ B = {tuple(A @ B)} != {R2.mul(a, b)}")
    for p in PTS:
        if tuple(C.map_point(p)) != tuple(B.map_point(A.map_point(p))):
            why.append(f"compose_ltr((A,B)).map_point{p} != B(A(p))")
    return why


SPARSE = [
    (1, 0, 0, 1, 0, 0),
    (1, 0, 0, 1, 3, -2),
    (2, 0, 0, 1, 0, 0),
    (1, 0, 0, -1, 0, 0),
    (0, 1, -1, 0, 0, 0),
    (1, 1, 0, 1, 0, 0),
    (1, 0, 2, 1, 0, 0),
    (0, 1, 1, 0, 1, 1),
    (Fr(1, 2), 0, 0, 3, -1, 0),
    (2, 1, 1, 1, 0, 5),
    (0, 0, 0, 0, 1, 1),
    (1, 2, 2, 4, 0, 0),
    (-1, 0, 0, -1, 2, 2),
    (3, -1, 1, 2, -4, 7),
]


# ---------------------------------------------------------------------------
# (c) rect_to_rect


def rects(tier):
    xs = [0, 3, -2]
    ws = [1, 2, 5] if tier == "quick" else [1, 2, 5, 10]
    return [(Fr(x), Fr(y), Fr(w), Fr(h)) for x in xs for y in xs for w in ws for h in ws]


def judge_r2r(src, dst, align, mos, spelling, Affine2D, Rect):
    par = align if mos is None else f"{align} {mos}"
    if spelling == 1:
        par = "  " + par + " "
    try:
        T = Affine2D.rect_to_rect(Rect(*src), Rect(*dst), par) if par is not None else Affine2D.rect_to_rect(Rect(*src), Rect(*dst))
    except Exception as e:  # noqa
        return f"raised {type(e).__name__}: {e}"
    want = R2.viewbox_transform(src, dst, align, mos or "meet")
    if not eq6(T, want):
        return f"rect_to_rect({src},{dst},{par!r}) = {tuple(T)} != specification {want}"
    # geometric post-conditions, independent of the algorithm's arithmetic
    ix, iy = T.map_point((src[0], src[1]))
    iw, ih = src[2] * T.a, src[3] * T.d
    dx, dy, dw, dh = dst
    if T.b != 0 or T.c != 0:
        return "not a scale+translate"
    if align == "none":
        if (ix, iy, iw, ih) != (dx, dy, dw, dh):
            return f"align none: image {(ix, iy, iw, ih)} != dst"
        return None
    if T.a != T.d:
        return "non-uniform scale with an alignment"
    if mos == "slice":
        if iw < dw or ih < dh or (iw != dw and ih != dh):
            return f"slice: image {iw}x{ih} does not cover dst {dw}x{dh} tightly"
    else:
        if iw > dw or ih > dh or (iw != dw and ih != dh):
            return f"meet: image {iw}x{ih} does not fit dst {dw}x{dh} tightly"
    ax, ay = align[:4], align[4:]
    okx = {"xMin": ix == dx, "xMid": ix + iw / 2 == dx + dw / 2, "xMax": ix + iw == dx + dw}[ax]
    oky = {"YMin": iy == dy, "YMid": iy + ih / 2 == dy + dh / 2, "YMax": iy + ih == dy + dh}[ay]
    if not okx or not oky:
        return f"{align}: image {(ix, iy, iw, ih)} misaligned in dst {dst}"
    return None


# ---------------------------------------------------------------------------


def evaluate(case):
    from picosvg.geometric_types import Rect
    from picosvg.svg_transform import Affine2D

    fam = case["fam"]
    outs = collections.Counter()
    nts = set()
    viols = []
    n = 0
    sample = None

    def bad(kind, casej, why):
        if len(viols) < 12:
            viols.append({"sig": {"kind": kind}, "case": casej, "detail": {"why": why}})
        else:
            outs["more-violations"] += 1

    if fam == "lists":
        variants = OPV[case["vset"]]
        first = variants[case["first"]]
        for rest in itertools.product(variants, repeat=case["len"] - 1):
            ops = [first] + list(rest)
            for st in case["styles"]:
                n += 1
                s, o, why = judge_list(ops, st, Affine2D)
                outs[o] += 1
                if len(ops) > 1 or ops[0][0] in ("rotate", "skewX", "skewY"):
                    nts.add(core.h64(s))
                if why:
                    bad("transform-list", {"fam": "list1", "ops": [[a, b] for a, b in ops], "style": st}, why)
                if sample is None and len(ops) >= 2:
                    sample = s
    elif fam == "scaled":
        # the same lattice with the linear part multiplied by 2^k (exact in binary floating point and in Fractions):
        # determinants from 2^-120 to 2^+80 - whether a matrix is invertible does not depend on the unit of length
        vals = L_SINGLE
        k = case["k"]
        f = Fr(2) ** k
        for lin in itertools.product(vals, repeat=4):
            for tr in ((Fr(0), Fr(0)), (Fr(3), Fr(-2))):
                m = tuple(x * f for x in lin) + tr
                n += 1
                why = judge_single(m, Affine2D)
                outs["ok" if not why else "bad"] += 1
                if R2.det(m) != 0:
                    nts.add(core.h64(repr(m)))
                if why:
                    bad("algebra-single", {"fam": "single1", "m": [str(x) for x in m]}, f"{m}: " + "; ".join(why))
    elif fam == "single":
        vals = L_SINGLE
        a0, b0 = vals[case["i"]], vals[case["j"]]
        for rest in itertools.product(vals, repeat=4):
            m = (a0, b0) + rest
            n += 1
            why = judge_single(m, Affine2D)
            outs["ok" if not why else "bad"] += 1
            if R2.det(m) != 0:
                nts.add(core.h64(repr(m)))
            if why:
                bad("algebra-single", {"fam": "single1", "m": [str(x) for x in m]}, f"{m}: " + "; ".join(why))
    elif fam == "pairs":
        L = lattice6(L_PAIR_Q if case["lat"] == "q" else L_PAIR_T)
        for ai in range(case["lo"], case["hi"]):
            a = L[ai]
            for b in L:
                n += 1
                why = judge_pair(a, b, Affine2D)
                outs["ok" if not why else "bad"] += 1
                if why:
                    bad("algebra-pair", {"fam": "pair1", "a": [str(x) for x in a], "b": [str(x) for x in b]}, f"A={a} B={b}: " + "; ".join(why))
            nts.add(core.h64(repr(a)))
        sample = None
    elif fam == "triples":
        a = SPARSE[case["i"]]
        A = Affine2D(*a)
        for b, c in itertools.product(SPARSE, repeat=2):
            n += 1
            B, C = Affine2D(*b), Affine2D(*c)
            why = []
            if not eq6((A @ B) @ C, A @ (B @ C)):
                why.append("matmul not associative")
            if not eq6(Affine2D.compose_ltr((A, B, C)), R2.mul(c, R2.mul(b, a))):
                why.append(f"compose_ltr((A,B,C)) = {tuple(Affine2D.compose_ltr((A, B, C)))} != C x B x A")
            for p in PTS:
                if tuple(Affine2D.compose_ltr((A, B, C)).map_point(p)) != tuple(C.map_point(B.map_point(A.map_point(p)))):
                    why.append("compose_ltr of three does not apply left to right")
            outs["ok" if not why else "bad"] += 1
            nts.add(core.h64(repr((a, b, c))))
            if why:
                bad("algebra-triple", {"fam": "triple1", "a": [str(x) for x in a], "b": [str(x) for x in b], "c": [str(x) for x in c]}, "; ".join(why))
    elif fam == "r2r":
        R = rects(case["tier"])
        src = R[case["i"]]
        for dst in R:
            for align in R2.ALIGNS:
                for mos in (None, "meet", "slice"):
                    n += 1
                    why = judge_r2r(src, dst, align, mos, (case["i"] + n) % 2, Affine2D, Rect)
                    outs["ok" if not why else "bad"] += 1
                    if src[2] * dst[3] != src[3] * dst[2]:
                        nts.add(core.h64(repr((src, dst, align, mos))))
                    if why:
                        bad("rect_to_rect", {"fam": "r2r1", "src": [str(x) for x in src], "dst": [str(x) for x in dst], "align": align, "mos": mos}, why)
        sample = {"src": [str(x) for x in src], "dst": [str(x) for x in R[-1]], "par": "xMaxYMid slice"}
    elif fam == "decomp":
        vals = [float(v) for v in L_SINGLE]
        a0, b0 = vals[case["i"]], vals[case["j"]]
        for rest in itertools.product(vals, repeat=4):
            m = (a0, b0) + rest
            if R2.det(m) == 0:
                continue
            n += 1
            A = Affine2D(*m)
            why = []
            try:
                s, r = A.decompose_scale()
                if (s.b, s.c, s.e, s.f) != (0, 0, 0, 0):
                    why.append(f"scale part {tuple(s)} is not a pure scale")
                back = R2.mul(tuple(r), tuple(s))  # s first then r (LTR)
                if any(abs(x - y) > 1e-4 for x, y in zip(back, m)):
                    why.append(f"scale x remainder = {back} != {m}")
                if abs(math.hypot(r.a, r.b) - 1) > 1e-6 or abs(math.hypot(r.c, r.d) - 1) > 1e-6:
                    why.append(f"remainder {tuple(r)} still carries scale")
            except Exception as e:  # noqa
                why.append(f"decompose_scale raised {type(e).__name__}: {e}")
            try:
                t, r = A.decompose_translation()
                if (t.a, t.b, t.c, t.d) != (1, 0, 0, 1):
                    why.append(f"translation part {tuple(t)} is not a pure translation")
                if (r.e, r.f) != (0, 0):
                    why.append(f"remainder {tuple(r)} still translates")
                back = R2.mul(tuple(r), tuple(t))
                if any(abs(x - y) > 1e-4 for x, y in zip(back, m)):
                    why.append(f"translation then remainder = {back} != {m}")
            except Exception as e:  # noqa
                why.append(f"decompose_translation raised {type(e).__name__}: {e}")
            outs["ok" if not why else "bad"] += 1
            nts.add(core.h64(repr(m)))
            if why:
                bad("decompose", {"fam": "decomp1", "m": list(m)}, f"{m}: " + "; ".join(why))
    else:
        raise ValueError(fam)
    return {"n": n, "outs": outs, "nts": nts, "viol": viols, "sample": sample}


def cases(tier, seed):
    styles = list(range(len(SEPSTYLES)))
    for i in range(len(OPV["full"])):
        yield {"fam": "lists", "vset": "full", "first": i, "len": 1, "styles": styles}
        yield {"fam": "lists", "vset": "full", "first": i, "len": 2, "styles": styles}
    for i in range(len(OPV["mag"])):
        yield {"fam": "lists", "vset": "mag", "first": i, "len": 1, "styles": styles[:2]}
        yield {"fam": "lists", "vset": "mag", "first": i, "len": 2, "styles": styles[:2]}
        yield {"fam": "lists", "vset": "mag", "first": i, "len": 3, "styles": styles[:1]}
    for i in range(len(OPV["mid"])):
        yield {"fam": "lists", "vset": "mid", "first": i, "len": 3, "styles": styles}
        if tier == "thorough":
            yield {"fam": "lists", "vset": "mid", "first": i, "len": 4, "styles": styles[:3]}
    if tier == "thorough":
        for i in range(len(OPV["small"])):
            yield {"fam": "lists", "vset": "small", "first": i, "len": 5, "styles": styles[:2]}
    for k in ([-60, -30, -27, 30] if tier == "quick" else [-500, -200, -60, -40, -30, -27, -26, -20, -10, 10, 20, 30, 40, 200, 500]):
        yield {"fam": "scaled", "k": k}
    for i in range(6):
        for j in range(6):
            yield {"fam": "single", "i": i, "j": j}
            yield {"fam": "decomp", "i": i, "j": j}
    if tier == "quick":
        N = 3**6
        step = 27
        for lo in range(0, N, step):
            yield {"fam": "pairs", "lat": "q", "lo": lo, "hi": min(N, lo + step)}
    else:
        N = 4**6
        step = 8
        for lo in range(0, N, step):
            yield {"fam": "pairs", "lat": "t", "lo": lo, "hi": min(N, lo + step)}
    for i in range(len(SPARSE)):
        yield {"fam": "triples", "i": i}
    for i in range(len(rects(tier))):
        yield {"fam": "r2r", "i": i, "tier": tier}


def run(run):
    run.rule = (
        "E2: (a) transform lists = products of per-operation variants (matrix/translate 1-2/scale 1-2/rotate 1|3/skewX/skewY over "
        "{0,1,-2,.5,30,90,1e1}) x 7 separator styles (incl. several whitespace characters between the name and its parenthesis), length 1-3 (quick) / 1-5 (thorough), plus lists of length 1-3 over 9 translate / scale / matrix operations with powers of two between 2^-40 and 2^40, vs the specification product of R2 "
        "(exact equality for rational operations); (b) real Affine2D over exact int/Fraction entries: all 6^6 matrices over "
        "{-2,-1,0,1/2,1,3} (det, map_point, inverse, M.M^-1=I, degenerate rule, tostring/fromstring), the same with the linear part scaled by 2^k (k in -60..30; thorough -500..500), all ordered pairs over {-1,0,2}^6 "
        "(quick) / {-1,0,1/2,2}^6 (thorough) for compose order, triples of a sparse set for associativity; (c) rect_to_rect for all src/dst "
        "pairs of a rectangle lattice x 10 alignments x {default, meet, slice}: spec algorithm and geometric post-conditions in exact arithmetic; "
        "(d) decompositions on the non-degenerate float lattice. Non-trivial: list with >1 op or an angle op / non-degenerate matrix / "
        "pair block / triple / src,dst with different aspect ratio."
    )
    run.cov["bounds"] = {"single_lattice": [str(x) for x in L_SINGLE], "pair_lattice": [str(x) for x in (L_PAIR_Q if run.tier == "quick" else L_PAIR_T)], "rects": len(rects(run.tier))}
    run.assumptions = [
        "'for all reals' is replaced by exact arithmetic on finite rational lattices (each law is polynomial of degree <= 2 per variable, so "
        "agreement on a grid with >= 3 values per variable determines it; noted as an argument, not a proof)",
        "transform-list conformance follows SVG 1.1 7.6.1 (case-sensitive names); adjacency of transforms without separator is also accepted",
    ]
    run.floor_nt = 1000
    run.run_cases(MOD, cases(run.tier, run.seed), chunk=1)


def replay(case):
    from picosvg.geometric_types import Rect
    from picosvg.svg_transform import Affine2D

    f = lambda xs: tuple(Fr(x) for x in xs)
    fam = case.get("fam")
    mk = lambda why, kind: [{"sig": {"kind": kind}, "case": case, "detail": {"why": why if isinstance(why, str) else "; ".join(why)}}] if why else []
    if fam == "list1":
        s, o, why = judge_list([(a, b) for a, b in case["ops"]], case["style"], Affine2D)
        return mk(why, "transform-list")
    if fam == "single1":
        return mk(judge_single(f(case["m"]), Affine2D), "algebra-single")
    if fam == "pair1":
        return mk(judge_pair(f(case["a"]), f(case["b"]), Affine2D), "algebra-pair")
    if fam == "r2r1":
        return mk(judge_r2r(f(case["src"]), f(case["dst"]), case["align"], case["mos"], 0, Affine2D, Rect), "rect_to_rect")
    return evaluate(case)["viol"]
