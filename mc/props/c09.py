"""C09 - rewriting shapes and path data never changes the curve they describe.

E2 over the path walker's state machine: every command sequence up to a length
bound (20 commands x argument variants incl. degenerate ones), all single and
double command substitutions in three 12-command base paths, and a parameter
lattice for the seven basic shapes.  Every rewrite's result is interpreted by
the independent path interpreter R1 and compared with the interpretation of
the input.
"""
import collections
import itertools
import math

from mc import core
from mc.ref import pathdata as R1

ID = "C09"
LEVEL = "exploration"
MOD = "mc.props.c09"

CMDS = "MmZzLlHhVvCcSsQqTtAa"
PR = [3, 5, 7, 11, 13, 17, 19, 23, 29, 31, 37, 41]


def _g(k, j, v):
    x = PR[(3 * k + 5 * j + 7 * v) % 12] / 8.0
    return -x if (k + j + v) % 3 == 0 else x


def fmt(x):
    if isinstance(x, int):
        return str(x)
    if x == int(x) and abs(x) < 1e15:
        return str(int(x))
    return repr(x)


VARIANTS = {
    "full": {"gen": ["g0", "g1", "z", "s", "e"], "arc": ["a00", "a01", "a10", "a11", "asm", "a0", "aneg", "z", "s"]},
    "mid": {"gen": ["g0", "z", "s"], "arc": ["a01", "a10", "asm", "aneg"]},
    "one": {"gen": ["g0"], "arc": ["a11"]},
}


def variants_for(cmd, vset):
    lc = cmd.lower()
    if lc == "z":
        return [""]
    if lc == "a":
        return VARIANTS[vset]["arc"]
    return VARIANTS[vset]["gen"]


def gen_args(cmd, var, k, cur, start):
    """Arguments for command cmd (variant var) at position k given walker state."""
    lc = cmd.lower()
    rel = cmd.islower()
    if lc == "z":
        return ()
    # where should the end point go?
    if var in ("z",):
        end = cur
    elif var == "s":
        end = start
    elif var == "e":
        end = (start[0] + 1e-10, start[1] - 1e-10)
    else:
        v = 1 if var == "g1" else 0
        end = (_g(k, 0, v) + 4, _g(k, 1, v) + 2)
        if rel:
            end = (cur[0] + _g(k, 0, v), cur[1] + _g(k, 1, v))
    ex, ey = (end[0] - cur[0], end[1] - cur[1]) if rel else end
    ox, oy = (0.0, 0.0) if rel else cur  # base for control points
    vv = 1 if var == "g1" else 0

    def ctrl(j):
        return (ox + _g(k, j, vv) * 1.5, oy + _g(k, j + 1, vv) * 1.5)

    if lc in ("m", "l", "t"):
        return (ex, ey)
    if lc == "h":
        return (ex,)
    if lc == "v":
        return (ey,)
    if lc == "c":
        return ctrl(2) + ctrl(4) + (ex, ey)
    if lc in ("s", "q"):
        return ctrl(2) + (ex, ey)
    if lc == "a":
        if var == "asm":
            rx, ry, rot, fa, fs = 0.25, 0.5, 30, 0, 1
        elif var == "a0":
            rx, ry, rot, fa, fs = 0, 2, 0, 1, 1
        elif var == "aneg":
            rx, ry, rot, fa, fs = -6.5, 4.25, 30, 0, 1  # the sign of a radius is dropped (F.6.6)
        elif var in ("z", "s"):
            rx, ry, rot, fa, fs = 3, 2, 15, 1, 0
        else:
            rx, ry, rot = 6.5, 4.25, 30
            fa, fs = int(var[1]), int(var[2])
        return (rx, ry, rot, fa, fs, ex, ey)
    raise ValueError(cmd)


def cmd_str(cmd, args):
    return cmd + " ".join(fmt(a) for a in args)


def walker_after(cmds):
    """(cur, start, prev_fam) after interpreting cmds with R1."""
    subs = R1.interpret(cmds)
    if not subs:
        return (0.0, 0.0), (0.0, 0.0), None
    s = subs[-1]
    cur = R1.sub_end(s)
    fam = None
    if s["segs"] and not s["closed"]:
        last = cmds[-1][0].lower()
        fam = "C" if last in "cs" else ("Q" if last in "qt" else None)
    return cur, s["start"], fam


def join_unexploded(cmds):
    """Serialise with implicit repeats where the grammar allows them."""
    out = []
    prev = None
    for c, a in cmds:
        rep = prev is not None and c.lower() != "z" and (c == prev or (prev == "M" and c == "L") or (prev == "m" and c == "l"))
        if rep:
            out.append(" " + " ".join(fmt(x) for x in a))
            # the implied command stays what it was
            if prev in "Mm":
                prev = "L" if prev == "M" else "l"
        else:
            out.append(cmd_str(c, a))
            prev = c
    return "".join(out)


def join_exploded(cmds):
    return " ".join(cmd_str(c, a) for c, a in cmds)


# ---------------------------------------------------------------------------
# oracle for one path string


def _letters(d):
    return [ch for ch in d if ch in CMDS]


def arc_radius(subs):
    r = 0.0
    for s in subs:
        for seg in s["segs"]:
            if seg[0] == "A":
                cp = R1.arc_center(*seg[1:8])
                if cp:
                    r = max(r, cp[2], cp[3])
    return r


def check_path(d, SVGPath, want_states=None):
    """Run every rewrite on path string d.  Returns list of (rewrite, why)."""
    bad = []
    ref_cmds = R1.exploded(R1.parse(d))
    A = R1.interpret(ref_cmds)
    scale = R1.scale_of(A)
    tol = 1e-9 * scale
    rad = arc_radius(A)
    tol_arc = max(tol, 3.2e-4 * rad)

    # ill-conditioned input: an arc whose end points are distinct but closer than
    # the snapping distance of the rewrites.  Its meaning (full ellipse vs nothing)
    # is discontinuous in a 1e-9 perturbation of one coordinate, so "the same
    # point set within a small bound" has no stable reference here.
    for s_ in A:
        for seg in s_["segs"]:
            if seg[0] == "A":
                dd = max(abs(seg[1][0] - seg[-1][0]), abs(seg[1][1] - seg[-1][1]))
                if 0 < dd < 1e-7:
                    return None

    def run(name, fn):
        try:
            return fn()
        except Exception as e:  # noqa
            bad.append((name, f"raised {type(e).__name__}: {e}", "raised"))
            return None

    def same(name, d2, tol_geom=None, form=None, ref=A):
        if d2 is None:
            return
        try:
            B = R1.interpret_string(d2)
        except R1.Reject as e:
            bad.append((name, f"result {d2!r} is not valid path data: {e}", "invalid"))
            return
        why = R1.compare_curves(ref, B, tol, tol_geom)
        if why:
            bad.append((name, f"{why}; result {d2!r}", "curve"))
        if form:
            L = _letters(d2)
            msg = form(L)
            if msg:
                bad.append((name, f"target form not reached ({msg}); result {d2!r}", "form"))

    P = lambda: SVGPath(d=d)
    no_lower = lambda L: "lowercase command" if any(c.islower() for c in L) else None
    rel_form = lambda L: "uppercase after first" if any(c.isupper() for c in L[1:]) or (L and L[0] != "M") else None
    no_hv = lambda L: "H/V left" if any(c in "HhVv" for c in L) else None
    no_st = lambda L: "S/T left" if any(c in "SsTt" for c in L) else None
    no_arc = lambda L: "arc left" if any(c in "Aa" for c in L) else None
    mlcqz = lambda L: "non MLCQZ command" if any(c not in "MLCQZ" for c in L) else None
    abs_m = lambda L: "relative moveto" if "m" in L else None

    same("absolute", run("absolute", lambda: P().absolute().d), form=no_lower)
    same("relative", run("relative", lambda: P().relative().d), form=rel_form)
    same("absolute_moveto", run("absolute_moveto", lambda: P().absolute_moveto().d), form=abs_m)
    same("explicit_lines", run("explicit_lines", lambda: P().explicit_lines().d), form=no_hv)
    same("expand_shorthand", run("expand_shorthand", lambda: P().expand_shorthand().d), form=no_st)
    same("arcs_to_cubics", run("arcs_to_cubics", lambda: P().arcs_to_cubics().d), tol_geom=tol_arc, form=no_arc)
    same(
        "as_cmd_seq",
        run("as_cmd_seq", lambda: SVGPath.from_commands(P().as_cmd_seq()).d),
        tol_geom=tol_arc,
        form=mlcqz,
    )
    same("relative.absolute", run("relative.absolute", lambda: P().absolute().relative().d), form=rel_form)
    same("absolute.relative", run("absolute.relative", lambda: P().relative().absolute().d), form=no_lower)
    # in-place variants must agree with the copying ones
    def inplace():
        p = P()
        r = p.absolute(inplace=True)
        if r is not p:
            raise AssertionError("absolute(inplace=True) did not return the receiver")
        return p.d

    same("absolute[inplace]", run("absolute[inplace]", inplace), form=no_lower)

    # several steps on ONE object: every later rewrite / normalisation must see what the earlier steps did
    def same_object():
        p = P()
        p.as_cmd_seq()
        p.bounding_box()
        msgs = []
        for step in ("relative", "arcs_to_cubics"):
            getattr(p, step)(inplace=True)
            seen = SVGPath.from_commands(p.as_cmd_seq()).d
            why = R1.compare_curves(R1.interpret_string(p.d), R1.interpret_string(seen), tol, tol_arc) if p.d else None
            if why:
                msgs.append(f"after {step}(inplace=True) as_cmd_seq() describes another curve than d={p.d!r}: {why}")
                break
        p.d = "M0,0 L3,0 L3,4 Z"
        if [c for c, _ in p.as_cmd_seq()] != ["M", "L", "L", "Z"] or tuple(p.bounding_box()) != (0, 0, 3, 4):
            msgs.append("after assigning d, as_cmd_seq()/bounding_box() still describe the old path")
        if msgs:
            raise AssertionError("; ".join(msgs))
        return None

    run("same-object-sequence", same_object)

    # move
    dx, dy = 2.5, -1.75
    moved = [
        {
            "start": (s["start"][0] + dx, s["start"][1] + dy),
            "closed": s["closed"],
            "segs": [tuple((p[0] + dx, p[1] + dy) if isinstance(p, tuple) else p for p in seg) for seg in s["segs"]],
        }
        for s in A
    ]
    same("move", run("move", lambda: P().move(dx, dy).d), ref=moved)

    # subpaths
    pieces = run("subpaths", lambda: P().subpaths())
    if pieces is not None:
        An = R1.drop_move_only(A)
        got = []
        ok = True
        for piece in pieces:
            try:
                got.extend(R1.interpret_string(piece))
            except R1.Reject as e:
                bad.append(("subpaths", f"piece {piece!r} is not a path on its own ({e}); pieces {pieces!r}", "invalid"))
                ok = False
                break
        if ok:
            why = R1.compare_curves(An, got, tol)
            if why:
                bad.append(("subpaths", f"{why}; pieces {pieces!r}", "curve"))

    # remove_empty_subpaths when every subpath certainly encloses area
    An = R1.drop_move_only(A)
    if An and all(abs(R1.signed_area(R1.sub_polyline(s, 12))) > 0.5 for s in An) and len(An) == len(A):
        same("remove_empty_subpaths", run("remove_empty_subpaths", lambda: P().remove_empty_subpaths().d))

    # rounding: argument by argument
    for nd in range(0, 7):
        d2 = run(f"round_floats({nd})", lambda: P().round_floats(nd).d)
        if d2 is None:
            continue
        try:
            got = R1.exploded(R1.parse(d2))
        except R1.Reject as e:
            bad.append((f"round_floats({nd})", f"result {d2!r} invalid: {e}", "invalid"))
            continue
        why = None
        if [c for c, _ in got] != [c for c, _ in ref_cmds]:
            why = "commands changed"
        else:
            half = 0.5 * 10 ** (-nd)
            for (c, a), (_, b) in zip(ref_cmds, got):
                if len(a) != len(b):
                    why = "argument count changed"
                    break
                for x, y in zip(a, b):
                    if abs(x - y) > half * (1 + 1e-9) + abs(x) * 1e-15:
                        why = f"{c}: {x!r} rounded to {y!r}, more than half a unit in digit {nd}"
                    elif round(y, nd) != y:
                        why = f"{c}: {y!r} is not rounded to {nd} digits"
                if why:
                    break
        if why:
            bad.append((f"round_floats({nd})", f"{why}; result {d2!r}", "round"))
    return bad


def _walker_states(cmds):
    st = set()
    acc = []
    for c in cmds:
        acc.append(c)
        cur, start, fam = walker_after(acc)
        st.add(repr((round(cur[0], 6), round(cur[1], 6), round(start[0], 6), round(start[1], 6), fam)))
    return st


def _viol(d, name, why, kind, extra=None):
    sig = {"kind": kind, "rewrite": name.split("(")[0]}
    if extra:
        sig.update(extra)
    return {"sig": sig, "case": {"fam": "path", "d": d}, "detail": {"why": f"{name} on {d!r}: {why}"}}


def _classify(d, name, kind, ref_cmds):
    """Extra signature fields that identify the known defect classes precisely."""
    extra = {}
    letters = [c for c, _ in ref_cmds]
    # S directly after a quadratic-family command or T directly after a cubic-family one
    cross = False
    for a, b in zip(letters, letters[1:]):
        if (b in "Ss" and a in "QqTt") or (b in "Tt" and a in "CcSs"):
            cross = True
    extra["cross_family_shorthand"] = cross
    z_then_draw = any(a in "Zz" and b not in "MmZz" for a, b in zip(letters, letters[1:]))
    extra["draw_after_z"] = z_then_draw
    return extra


def eval_path(d, SVGPath):
    bad = check_path(d, SVGPath)
    ref_cmds = R1.exploded(R1.parse(d))
    viols = []
    if bad is None:
        return [], False, ref_cmds
    for name, why, kind in bad:
        viols.append(_viol(d, name, why, kind, _classify(d, name, kind, ref_cmds)))
    letters = [c for c, _ in ref_cmds]
    nontrivial = any(c in "mzZlhHvVcsSqtTa" for c in letters[1:]) or (letters and letters[0] == "m")
    return viols, nontrivial, ref_cmds


# ---------------------------------------------------------------------------
# case families


def _extend(prefix_cmds, length, vset):
    """all extensions of prefix_cmds by `length` further commands"""
    if length == 0:
        yield prefix_cmds
        return
    cur, start, _ = walker_after(prefix_cmds)
    k = len(prefix_cmds)
    for cmd in CMDS:
        for var in variants_for(cmd, vset):
            args = gen_args(cmd, var, k, cur, start)
            yield from _extend(prefix_cmds + [(cmd, args)], length - 1, vset)


BASES = [
    "M1 1 L5 2 h3 v4 C9 9 10 4 12 6 s2 3 4 1 Q18 0 20 4 t3 2 A4 3 20 0 1 25 9 l-3 4 z m2 2 l4 0",
    "m2 3 c1 2 3 2 4 0 S8 1 9 3 q1 2 2 0 T14 3 a2 3 0 1 0 3 3 H20 V9 L2 12 Z l3 3 h2 z",
    "M0 0 H8 V6 a3 2 45 0 1 -4 2 t-2 1 s-1 3 -3 1 z M3 2 l1 0 0 1 z m5 5 q1 1 2 0 T12 8",
]


def _base_cmds(i):
    return R1.exploded(R1.parse(BASES[i]))


def _subst(cmds, pos, newcmd):
    """replace command at pos by newcmd with fresh generic arguments"""
    cur, start, _ = walker_after(cmds[:pos]) if pos else ((0.0, 0.0), (0.0, 0.0), None)
    var = "" if newcmd in "Zz" else ("a01" if newcmd in "Aa" else "g0")
    args = gen_args(newcmd, var, pos, cur, start)
    return cmds[:pos] + [(newcmd, args)] + cmds[pos + 1 :]


def _paths_of(case):
    fam = case["fam"]
    if fam == "seq":
        init = case["init"]
        first = [(init, (1.5, 2.25))]
        cur, start, _ = walker_after(first)
        c0, v0 = case["first"]
        k = 1
        args = gen_args(c0, v0, k, cur, start)
        for cmds in _extend(first + [(c0, args)], case["len"] - 1, case["vset"]):
            yield join_exploded(cmds)
            if case.get("unexploded"):
                u = join_unexploded(cmds)
                if u != join_exploded(cmds):
                    yield u
    elif fam == "sub1":
        base = _base_cmds(case["base"])
        for pos in range(1, len(base)):
            for c in CMDS:
                yield join_exploded(_subst(base, pos, c))
    elif fam == "sub2":
        base = _base_cmds(case["base"])
        p1 = case["pos"]
        for c1 in CMDS:
            b1 = _subst(base, p1, c1)
            for p2 in range(p1 + 1, len(base)):
                for c2 in CMDS:
                    yield join_exploded(_subst(b1, p2, c2))
    elif fam == "list":
        yield from case["paths"]
    else:
        raise ValueError(fam)


def evaluate(case):
    if case["fam"] == "shape":
        return evaluate_shape(case)
    from picosvg.svg_types import SVGPath

    outs = collections.Counter()
    nts = set()
    states = set()
    trans = 0
    viols = []
    n = 0
    sample = None
    for d in _paths_of(case):
        n += 1
        v, nontrivial, ref_cmds = eval_path(d, SVGPath)
        if nontrivial:
            nts.add(core.h64(d))
        states |= _walker_states(ref_cmds)
        trans += len(ref_cmds)
        outs["ok" if not v else "violating"] += 1
        if v and len(viols) < 30:
            viols.extend(v[:3])
        if sample is None and len(d) > 20:
            sample = d
    return {
        "n": n,
        "outs": outs,
        "nts": nts,
        "viol": viols,
        "sample": sample,
        "sets": {"states": states},
        "cnt": {"transitions": trans},
    }


# ---------------------------------------------------------------------------
# basic shapes


def _ref_rect(x, y, w, h, rx, ry):
    # SVG 1.1 9.2: auto values, clamping, then the path
    if rx is None and ry is None:
        rx = ry = 0.0
    elif rx is None:
        rx = ry
    elif ry is None:
        ry = rx
    rx = min(rx, w / 2.0)
    ry = min(ry, h / 2.0)
    if w <= 0 or h <= 0:
        return None
    segs = []
    p = (x + rx, y)
    start = p

    def L(q):
        nonlocal p
        if q != p:
            segs.append(("L", p, q))
        p = q

    def A(q):
        nonlocal p
        if rx > 0 and ry > 0:
            segs.append(("A", p, rx, ry, 0, 0, 1, q))
        elif q != p:
            segs.append(("L", p, q))
        p = q

    L((x + w - rx, y))
    A((x + w, y + ry))
    L((x + w, y + h - ry))
    A((x + w - rx, y + h))
    L((x + rx, y + h))
    A((x, y + h - ry))
    L((x, y + ry))
    A((x + rx, y))
    return [{"start": start, "segs": segs, "closed": True}]


def _ref_ellipse(cx, cy, rx, ry):
    if rx <= 0 or ry <= 0:
        return None
    a, b = (cx + rx, cy), (cx - rx, cy)
    return [{"start": a, "segs": [("A", a, rx, ry, 0, 1, 1, b), ("A", b, rx, ry, 0, 1, 1, a)], "closed": True}]


def _points(s):
    # SVG points grammar: numbers separated by comma-wsp
    import re

    toks = re.findall(r"[-+]?(?:\d+\.?\d*|\.\d+)(?:[eE][-+]?\d+)?", s)
    v = [float(t) for t in toks]
    if len(v) % 2:
        v = v[:-1]
    return [(v[i], v[i + 1]) for i in range(0, len(v), 2)]


def _ref_poly(pts, closed):
    if not pts:
        return None
    segs = [("L", pts[i], pts[i + 1]) for i in range(len(pts) - 1)]
    return [{"start": pts[0], "segs": segs, "closed": closed}]


def shape_cases(tier):
    xs = [0, 1.5, -3]
    ws = [0, 4, 10.5]
    rs = [None, 0.5, 3, 20]
    for x, y, w, h in itertools.product(xs, xs[:2], ws, ws):
        for rx, ry in itertools.product(rs, rs):
            yield {"fam": "shape", "tag": "rect", "p": {"x": x, "y": y, "width": w, "height": h, "rx": rx, "ry": ry}}
    for cx, cy, r in itertools.product(xs, xs, [0, 0.001, 2.5, 1000]):
        yield {"fam": "shape", "tag": "circle", "p": {"cx": cx, "cy": cy, "r": r}}
    for cx, cy, rx, ry in itertools.product(xs, xs[:2], [0, 2.5, 100], [0, 0.75, 3]):
        yield {"fam": "shape", "tag": "ellipse", "p": {"cx": cx, "cy": cy, "rx": rx, "ry": ry}}
    for x1, y1, x2, y2 in itertools.product(xs, xs[:2], xs, xs):
        yield {"fam": "shape", "tag": "line", "p": {"x1": x1, "y1": y1, "x2": x2, "y2": y2}}
    pls = ["", "1,2", "0,0 4,0 4,3", "0,0 4,0 4,3 0,3", "1 1 2 2 3 1 2 0", "0,0,5,0,5,5", "-1-1 2-3 4.5.5", "0,0 4,0 4,0 0,0", "1e1,2 3,4e0 5,6"]
    for tag in ("polygon", "polyline"):
        for p in pls:
            yield {"fam": "shape", "tag": tag, "p": {"points": p}}


def evaluate_shape(case):
    from picosvg import svg_types as T

    tag, p = case["tag"], case["p"]
    cls = {"rect": T.SVGRect, "circle": T.SVGCircle, "ellipse": T.SVGEllipse, "line": T.SVGLine, "polygon": T.SVGPolygon, "polyline": T.SVGPolyline}[tag]
    kw = {k: v for k, v in p.items() if v is not None}
    if tag == "rect":
        ref = _ref_rect(p["x"], p["y"], p["width"], p["height"], p["rx"], p["ry"])
    elif tag == "circle":
        ref = _ref_ellipse(p["cx"], p["cy"], p["r"], p["r"])
    elif tag == "ellipse":
        ref = _ref_ellipse(p["cx"], p["cy"], p["rx"], p["ry"])
    elif tag == "line":
        ref = [{"start": (p["x1"], p["y1"]), "segs": [("L", (p["x1"], p["y1"]), (p["x2"], p["y2"]))], "closed": False}]
    else:
        ref = _ref_poly(_points(p["points"]), tag == "polygon")
    viols = []
    key = f"{tag}:{sorted(p.items(), key=str)}"
    try:
        d = cls(**kw).as_path().d
        got = R1.interpret_string(d) if d else []
        out = "returned"
    except R1.Reject as e:
        viols.append({"sig": {"kind": "invalid", "rewrite": "as_path", "shape": tag}, "case": case, "detail": {"why": f"{tag}{p}.as_path() gave invalid path data {d!r}: {e}"}})
        return {"out": "invalid", "nt": key, "viol": viols}
    except Exception as e:  # noqa
        viols.append({"sig": {"kind": "raised", "rewrite": "as_path", "shape": tag}, "case": case, "detail": {"why": f"{tag}{p}.as_path() raised {type(e).__name__}: {e}"}})
        return {"out": "raised:" + type(e).__name__, "nt": key, "viol": viols}
    if ref is None:
        # rendering disabled: the path must not enclose any area
        area = sum(abs(R1.signed_area(R1.sub_polyline(s, 16))) for s in got)
        if area > 1e-9:
            viols.append({"sig": {"kind": "curve", "rewrite": "as_path", "shape": tag, "disabled": True}, "case": case, "detail": {"why": f"{tag}{p} is not rendered per SVG 9.x but as_path() encloses area {area}: {d!r}"}})
        return {"out": "disabled", "nt": key, "viol": viols}
    scale = R1.scale_of(ref)
    rad = arc_radius(ref)
    why = R1.compare_curves(ref, got, 1e-9 * scale, 1e-9 * scale)
    if why:
        viols.append({"sig": {"kind": "curve", "rewrite": "as_path", "shape": tag}, "case": case, "detail": {"why": f"{tag}{p}.as_path() = {d!r}: {why}"}})
    return {"out": out, "nt": key, "viol": viols, "sample": {"shape": tag, "params": p, "d": d} if tag == "rect" and p.get("rx") else None}


# ---------------------------------------------------------------------------


def cases(tier, seed):
    # short sequences: M/m + every sequence of length <= n
    plan = [("full", 1, True), ("full", 2, True)] if tier == "quick" else [("full", 1, True), ("full", 2, True), ("mid", 3, False), ("one", 4, False)]
    if tier == "quick":
        plan.append(("one", 3, False))
    for vset, length, unex in plan:
        for init in ("M", "m") if length <= 2 else ("M",):
            for c0 in CMDS:
                for v0 in variants_for(c0, vset):
                    yield {"fam": "seq", "init": init, "first": [c0, v0], "len": length, "vset": vset, "unexploded": unex}
    for b in range(len(BASES)):
        yield {"fam": "sub1", "base": b}
        if tier == "thorough":
            for pos in range(1, len(_base_cmds(b))):
                yield {"fam": "sub2", "base": b, "pos": pos}
    yield from shape_cases(tier)


def run(run):
    run.rule = (
        "E2 over the path walker: 'M|m x,y' + every sequence of commands from the 20 path commands up to the length bound, "
        "arguments from a generic prime/8 lattice plus degenerate variants (zero-length, back to subpath start, 1e-10 off the start; "
        "arcs: 4 flag pairs, too-small radii, zero radius), exploded and implicit-repeat spellings; all single (and in thorough all double) "
        "command substitutions in three 12-18-command base paths; basic-shape parameter lattice. Every rewrite (absolute, relative, "
        "absolute_moveto, explicit_lines, expand_shorthand, arcs_to_cubics, as_cmd_seq, subpaths, remove_empty_subpaths, move, "
        "round_floats 0..6, compositions, as_path) is interpreted by R1 and compared with the input's interpretation. "
        "Non-trivial = the path contains a command whose meaning depends on walker state (relative, H/V, S/T, z) / a shape case; "
        "states = distinct walker states (current point, subpath start, previous family), transitions = commands applied."
    )
    run.cov["bounds"] = {
        "quick": "len<=2 full variants (M and m start), len 3 with one variant",
        "thorough": "len<=2 full, len 3 with 3 variants, len 4 with 1 variant (20^4), double substitutions",
        "variants": VARIANTS,
    }
    run.assumptions = ["coordinates are multiples of 1/8 so exact rewrites are exact in binary floating point; tolerance 1e-9*scale"]
    run.floor_nt = 500
    run.run_cases(MOD, cases(run.tier, run.seed), chunk=2)
    run.cov["states"] = len(run.sets.get("states", ()))
    run.cov["transitions"] = int(run.cnt.get("transitions", 0))


def replay(case):
    if case.get("fam") == "path":
        from picosvg.svg_types import SVGPath

        v, _, _ = eval_path(case["d"], SVGPath)
        return v
    rec = evaluate(case)
    return rec["viol"]
