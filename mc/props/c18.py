"""C18 - pruning of invisible content is conservative.

E2: library of (mostly degenerate) geometries with exactly known painted area
under both fill rules x all combinations of fill / stroke / stroke-width /
opacity / fill-opacity / stroke-opacity / display given as attributes or style.
Entry points: shape.might_paint(), SVG.remove_unpainted_shapes() (rendered by
R3 before/after), SVGPath.remove_empty_subpaths() (rendered before/after).
"""
import collections
import itertools
import math

from mc import core
from mc.gen.docs import NS
from mc.ref import pathdata as R1
from mc.ref import scene

ID = "C18"
LEVEL = "exploration"
MOD = "mc.props.c18"

AREA_EPS = 1e-4  # below this (but > 0) the reference does not decide

# name -> (element text with {a} for attributes, area under nonzero, area under evenodd, has a segment of positive length, has any segment)
GEO = {
    "square": ('<path d="M10,10 H20 V20 H10 Z"{a}/>', 100, 100, True, True),
    "collinear": ('<path d="M10,10 L15,15 L20,20 Z"{a}/>', 0, 0, True, True),
    "rect0w": ('<rect x="10" y="10" width="0" height="10"{a}/>', 0, 0, None, None),
    "rect0h": ('<rect x="10" y="10" width="10" height="0"{a}/>', 0, 0, None, None),
    "circle0": ('<circle cx="15" cy="15" r="0"{a}/>', 0, 0, None, None),
    "ellipse0": ('<ellipse cx="15" cy="15" rx="0" ry="5"{a}/>', 0, 0, None, None),
    "line": ('<line x1="10" y1="10" x2="20" y2="18"{a}/>', 0, 0, True, True),
    "moveonly": ('<path d="M15,15"{a}/>', 0, 0, False, False),
    "movemove": ('<path d="M15,15 M18,18 m1,1"{a}/>', 0, 0, False, False),
    "mz": ('<path d="M15,15 Z"{a}/>', 0, 0, False, True),
    "zerolen": ('<path d="M15,15 L15,15"{a}/>', 0, 0, False, True),
    "coincident_opp": ('<path d="M10,10 H20 V20 H10 Z M10,10 V20 H20 V10 Z"{a}/>', 0, 0, True, True),
    "coincident_same": ('<path d="M10,10 H20 V20 H10 Z M10,10 H20 V20 H10 Z"{a}/>', 100, 0, True, True),
    "bowtie": ('<path d="M10,10 L20,20 L20,10 L10,20 Z"{a}/>', 50, 50, True, True),
    "nested_same": ('<path d="M10,10 H20 V20 H10 Z M13,13 H17 V17 H13 Z"{a}/>', 100, 84, True, True),
    "sliver6": ('<path d="M10,10 L20,10 L20,10.0000002 Z"{a}/>', 1e-6, 1e-6, True, True),
    "sliver9": ('<path d="M10,10 L20,10 L20,10.0000000002 Z"{a}/>', 1e-9, 1e-9, True, True),
    "sliver_subround": ('<path d="M10,10 L20,10 L20,10.0004 Z"{a}/>', 2e-3, 2e-3, True, True),
    "open2": ('<path d="M10,10 L20,10 L20,20"{a}/>', 50, 50, True, True),
    "empty_then_full": ('<path d="M1,1 M10,10 H20 V20 H10 Z"{a}/>', 100, 100, True, True),
    "emptyz_then_full": ('<path d="M1,1 Z M10,10 H20 V20 H10 Z"{a}/>', 100, 100, True, True),
    "z_then_draw": ('<path d="M11,11 Z L20,11 L20,20 Z"{a}/>', 40.5, 40.5, True, True),
    "circle": ('<circle cx="15" cy="15" r="5"{a}/>', math.pi * 25, math.pi * 25, True, True),
    "polyline3": ('<polyline points="10,10 20,10 15,18"{a}/>', 40, 40, True, True),
}

FILLS = [None, "none", "red"]
STROKES = [None, "none", "blue"]
WIDTHS = [None, "0", "1"]
OPS = [None, "0", "0.5"]
DISPLAYS = [None, "none", "inline"]


CAPS = [None, "round", "square"]


def attr_string(combo, carrier, rule, extra=""):
    fill, stroke, sw, op, fo, so, disp = combo
    props = {}
    if fill is not None:
        props["fill"] = fill
    if stroke is not None:
        props["stroke"] = stroke
    if sw is not None:
        props["stroke-width"] = sw
    if op is not None:
        props["opacity"] = op
    if fo is not None:
        props["fill-opacity"] = fo
    if so is not None:
        props["stroke-opacity"] = so
    if disp is not None:
        props["display"] = disp
    if rule == "evenodd":
        props["fill-rule"] = "evenodd"
    if carrier == "attr":
        return "".join(f' {k}="{v}"' for k, v in props.items()) + extra
    if carrier == "style":
        return (' style="' + ";".join(f"{k}:{v}" for k, v in props.items()) + '"' if props else "") + extra
    # mixed: attributes say the opposite of the style where possible; style must win
    opposite = {"fill": "none" if props.get("fill") not in (None, "none") else "red", "display": "inline" if props.get("display") == "none" else "none", "opacity": "1" if props.get("opacity") == "0" else "0"}
    a = "".join(f' {k}="{opposite[k]}"' for k in props if k in opposite)
    return a + ' style="' + ";".join(f"{k}:{v}" for k, v in props.items()) + '"' + extra


def reference_paints(geo, combo, rule, cap="butt"):
    """-> True / False / None (undecided)"""
    tpl, a_nz, a_eo, has_len, has_seg = GEO[geo]
    fill, stroke, sw, op, fo, so, disp = combo
    if disp == "none":
        return False
    opacity = 1.0 if op is None else float(op)
    fill_visible = (fill or "black") != "none" and opacity * (1.0 if fo is None else float(fo)) > 0
    width = 1.0 if sw is None else float(sw)
    stroke_visible = (stroke or "none") != "none" and width > 0 and opacity * (1.0 if so is None else float(so)) > 0
    area = a_nz if rule == "nonzero" else a_eo
    res = False
    if fill_visible:
        if area > AREA_EPS:
            return True
        if area > 0:
            res = None
    if stroke_visible:
        if has_len is None:
            return res  # zero-size basic shapes: rendering disabled
        if has_len:
            return True
        if has_seg and cap in ("round", "square"):
            return True
    return res


def _tiny_cause(d):
    """attribute a pruned tiny shape: does Skia's own simplify() (below picosvg) turn this very contour, which has a positive
    signed area, into nothing?  Computed with pathops directly, not through picosvg."""
    try:
        import pathops

        sk = pathops.Path(fillType=pathops.FillType.WINDING)
        for c, a in R1.exploded(R1.parse(d)):
            if c == "M":
                sk.moveTo(*a)
            elif c == "L":
                sk.lineTo(*a)
            elif c == "Q":
                sk.quadTo(*a)
            elif c == "C":
                sk.cubicTo(*a)
            elif c == "Z":
                sk.close()
            else:
                return "other"
        raw = sk.area
        sk.simplify(fix_winding=True)
        return "skia-simplify-collapses-tiny-curve" if (raw > 0 and sk.area == 0 and "Q" in d) else "other"
    except Exception:
        return "other"


def evaluate(case):
    from picosvg.svg import SVG

    fam = case["fam"]
    outs = collections.Counter()
    nts = set()
    viols = []
    n = 0
    sample = None
    if fam == "might":
        geo = case["geo"]
        tpl = GEO[geo][0]
        for carrier in case["carriers"]:
            for rule in ("nonzero", "evenodd"):
                # zero-length geometry: the line cap decides whether a visible stroke inks a dot
                caps = CAPS if (GEO[geo][3] is False and GEO[geo][4]) else [None]
                for combo, cap in itertools.product(itertools.product(FILLS, STROKES, WIDTHS, OPS, case["fos"], case["sos"], case["disps"]), caps):
                    a = attr_string(combo, carrier, rule, extra=(f' stroke-linecap="{cap}"' if cap else ""))
                    doc = f'<svg {NS} viewBox="0 0 30 30">{tpl.format(a=a)}</svg>'
                    n += 1
                    try:
                        shape = SVG.fromstring(doc).shapes()[0]
                        mp = shape.might_paint()
                        o = "might" if mp else "cannot"
                    except Exception as e:  # noqa
                        outs["raised:" + type(e).__name__] += 1
                        continue
                    ref = reference_paints(geo, combo, rule, cap or "butt")
                    outs[f"{o}/ref={ref}"] += 1
                    if ref is True or mp is False:
                        nts.add(core.h64(doc))
                    if ref is True and not mp:
                        if len(viols) < 6:
                            viols.append({"sig": {"kind": "prunes-painting-shape", "geo": geo, "carrier": carrier}, "case": {"fam": "one", "doc": doc, "geo": geo, "combo": list(combo), "rule": rule}, "detail": {"why": f"might_paint() is False but the shape paints (reference: visible paint with positive area / visible stroke): {doc}"}})
                        else:
                            outs["more-violations"] += 1
                    if sample is None and mp is False and combo[0] == "red":
                        sample = doc
    elif fam == "tinyunits":
        # whether a filled shape paints does not depend on the unit of length: squares / triangles / circles of size 10^-k
        # at the origin (exactly representable for Skia's float32 as long as nothing is added to the small numbers)
        from picosvg.svg_types import SVGPath

        for k in range(0, 8):
            u = 10.0 ** -k
            shapes = {
                "square": f"M0,0 L{u:.10g},0 L{u:.10g},{u:.10g} L0,{u:.10g} Z",
                "triangle": f"M0,0 L{3 * u:.10g},0 L0,{2 * u:.10g} Z",
                "quad": f"M0,0 Q{u:.10g},{2 * u:.10g} {2 * u:.10g},0 Z",
                "square-rel": f"M0,0 h{u:.10g} v{u:.10g} h{-u:.10g} z",
            }
            for name, d in shapes.items():
                for attrs in ({"fill": "red"}, {"fill": "red", "fill_rule": "evenodd"}, {"style": "fill:blue"}):
                    n += 1
                    try:
                        mp = SVGPath(d=d, **attrs).might_paint()
                    except Exception as e:  # noqa
                        outs["raised:" + type(e).__name__] += 1
                        continue
                    outs["tiny/" + ("might" if mp else "cannot")] += 1
                    nts.add(core.h64(d + repr(attrs)))
                    if not mp:
                        viols.append({"sig": {"kind": "prunes-painting-shape", "geo": "tiny-" + name, "carrier": "attr", "cause": _tiny_cause(d)}, "case": {"fam": "tiny", "d": d, "attrs": attrs}, "detail": {"why": f"might_paint() is False for the filled {name} {d!r} (size 1e-{k}): it has positive area in its own units"}})
                doc = f'<svg {NS} viewBox="0 0 {4 * u:.10g} {4 * u:.10g}"><path d="{d}" fill="red"/><path d="M0,0 L{u:.10g},{u:.10g}" fill="red"/></svg>'
                n += 1
                try:
                    out = SVG.fromstring(doc).remove_unpainted_shapes().tostring()
                    if out.count("<path") != 1:
                        viols.append({"sig": {"kind": "prunes-painting-shape", "geo": "tiny-" + name, "carrier": "doc", "cause": _tiny_cause(d)}, "case": {"fam": "doc", "doc": doc}, "detail": {"why": f"remove_unpainted_shapes() kept {out.count('<path')} of the 2 paths (exactly the filled {name} paints): {out[:400]}"}})
                    outs["tiny/doc"] += 1
                except Exception as e:  # noqa
                    outs["raised:" + type(e).__name__] += 1
    elif fam == "docs":
        # document level: removing unpainted shapes must not change the rendering
        for doc in case["docs"]:
            n += 1
            try:
                out = SVG.fromstring(doc).remove_unpainted_shapes().tostring()
            except Exception as e:  # noqa
                outs["raised:" + type(e).__name__] += 1
                continue
            try:
                r = scene.compare(doc, out, G=20, phase=case["seed"] % 8)
            except scene.Unsupported as e:
                outs["oracle-unsupported"] += 1
                continue
            outs["returned"] += 1
            if out.count("<") < doc.count("<"):
                nts.add(core.h64(doc))
            if not r["ok"]:
                viols.append({"sig": {"kind": "removal-changes-rendering", "entry": "remove_unpainted_shapes"}, "case": {"fam": "doc", "doc": doc}, "detail": {"why": r["why"], "output": out[:2000]}})
    elif fam == "subpaths":
        from picosvg.svg_types import SVGPath

        for d, attrs in case["paths"]:
            n += 1
            kw = {k.replace("-", "_"): (float(v) if k in ("stroke-width", "opacity", "fill-opacity", "stroke-opacity") else v) for k, v in attrs.items()}
            try:
                p = SVGPath(d=d, **kw)
                d2 = p.remove_empty_subpaths().d
            except Exception as e:  # noqa
                outs["raised:" + type(e).__name__] += 1
                continue
            a = "".join(f' {k}="{v}"' for k, v in attrs.items())
            src = f'<svg {NS} viewBox="0 0 30 30"><path d="{d}"{a}/></svg>'
            dst = f'<svg {NS} viewBox="0 0 30 30"><path d="{d2}"{a}/></svg>'
            try:
                r = scene.compare(src, dst, G=20, phase=case["seed"] % 8)
            except Exception as e:  # noqa
                viols.append({"sig": {"kind": "bad-path", "entry": "remove_empty_subpaths"}, "case": {"fam": "sub", "d": d, "attrs": attrs}, "detail": {"why": f"result {d2!r} cannot be rendered: {type(e).__name__}: {e}"}})
                continue
            outs["returned"] += 1
            if d2 != d:
                nts.add(core.h64(d + repr(attrs)))
            if not r["ok"]:
                viols.append({"sig": {"kind": "removal-changes-rendering", "entry": "remove_empty_subpaths", "stroked": attrs.get("stroke", "none") != "none"}, "case": {"fam": "sub", "d": d, "attrs": attrs}, "detail": {"why": f"remove_empty_subpaths: {d!r} -> {d2!r}: {r['why']}"}})
    return {"n": n, "outs": outs, "nts": nts, "viol": viols, "sample": sample}


SUBPATHS = [
    "M10,10 H20 V20 H10 Z",
    "M10,10 H20 V20 H10 Z M2,2 L4,4",
    "M2,2 L4,4 M10,10 H20 V20 H10 Z",
    "M2,2 M10,10 H20 V20 H10 Z M25,25",
    "M10,10 H20 V20 H10 Z M22,22 H26 V26 H22 Z",
    "M10,10 L15,15 L20,20 Z M5,20 L12,22 L6,27 Z",
    "M11,11 L14,11 Z L20,11 L20,20 Z",
    "M11,11 Z L20,11 L20,20 Z M3,3 L3,3",
    "M5,5 L25,8",
    "M5,5 L25,8 M5,15 L25,18 L10,25",
    "M10,10 H20 V20 H10 Z M10,10 V20 H20 V10 Z",
    "M5,25 Q15,5 25,25 M12,12 Z",
]
# every sequence of up to 3 (thorough: 4) subpaths over this alphabet - repetitions of the SAME subpath included
# (two identical contours cancel under evenodd and add up under nonzero; dropping or merging one changes the picture)
SUB_ATOMS = ["M10,10 H20 V20 H10 Z", "M13,13 H17 V17 H13 Z", "M13,13 V17 H17 V13 Z", "M2,2 L4,4", "M25,25", "M6,6 L6,6"]


def sub_sequences(tier):
    for n in (1, 2, 3) if tier == "quick" else (1, 2, 3, 4):
        for seq in itertools.product(range(len(SUB_ATOMS)), repeat=n):
            if n == 4 and not (len(set(seq)) < 4):
                continue  # length 4: only sequences with a repeated subpath
            yield " ".join(SUB_ATOMS[i] for i in seq)


SUBATTRS = [
    {"fill": "red"},
    {"fill": "red", "fill-rule": "evenodd"},
    {"fill": "none", "stroke": "blue", "stroke-width": "2"},
    {"fill": "red", "stroke": "blue", "stroke-width": "3"},
    {"fill": "red", "opacity": "0.5"},
    {"stroke": "blue", "stroke-width": "2", "stroke-linecap": "round"},
]


def doc_family(tier):
    geos = list(GEO)
    shown = [("red", None), ("none", "blue"), ("red", "blue"), (None, None)]
    hidden = [{"opacity": "0"}, {"display": "none"}, {"fill": "none"}, {"fill-opacity": "0"}, {"fill": "none", "stroke": "blue", "stroke-width": "0"}, {"fill": "none", "stroke": "blue", "stroke-opacity": "0"}]
    docs = []
    for g1, g2 in itertools.product(geos, repeat=2):
        if tier == "quick" and (geos.index(g1) + geos.index(g2)) % 3:
            continue
        for k, (f, s) in enumerate(shown):
            a1 = (f' fill="{f}"' if f else "") + (f' stroke="{s}" stroke-width="2"' if s else "")
            h = hidden[(geos.index(g1) + k) % len(hidden)]
            a2 = "".join(f' {x}="{y}"' for x, y in h.items())
            t1 = GEO[g1][0].format(a=a1)
            t2 = GEO[g2][0].format(a=a2 + ' transform="translate(3,2)"')
            docs.append(f'<svg {NS} viewBox="0 0 30 30"><g opacity=".5">{t1}{t2}</g><rect x="2" y="2" width="9" height="9" fill="green"/>{GEO[g2][0].format(a=a1.replace("red", "orange"))}</svg>')
    return docs


def cases(tier, seed):
    for geo in GEO:
        if tier == "quick":
            yield {"fam": "might", "geo": geo, "carriers": ["attr"], "fos": OPS, "sos": OPS, "disps": [None, "none"], "seed": seed}
            yield {"fam": "might", "geo": geo, "carriers": ["style", "mixed"], "fos": [None, "0"], "sos": [None], "disps": [None, "none"], "seed": seed}
        else:
            for carrier in ("attr", "style", "mixed"):
                yield {"fam": "might", "geo": geo, "carriers": [carrier], "fos": OPS, "sos": OPS, "disps": DISPLAYS, "seed": seed}
    yield {"fam": "tinyunits", "seed": seed}
    docs = doc_family(tier)
    for i in range(0, len(docs), 20):
        yield {"fam": "docs", "docs": docs[i : i + 20], "seed": seed}
    paths = [(d, a) for d in SUBPATHS for a in SUBATTRS]
    paths += [(d, a) for d in sub_sequences(tier) for a in (SUBATTRS if tier == "thorough" else SUBATTRS[:3])]
    for i in range(0, len(paths), 12):
        yield {"fam": "subpaths", "paths": paths[i : i + 12], "seed": seed}


def run(run):
    run.rule = (
        f"E2: {len(GEO)} geometries with exactly known painted area under both fill rules (proper area, collinear, zero-size rect/circle/ellipse, line, move-only, M..Z only, zero-length, coincident "
        "contours in opposite / same direction, bow-tie, nested same-direction squares, slivers of area 1e-6 / 1e-9 / 2e-3, open path enclosing area, empty-then-full subpaths, drawing after Z) x "
        "fill {absent, none, colour} x stroke {absent, none, colour} x stroke-width {absent, 0, 1} x opacity, fill-opacity, stroke-opacity in {absent, 0, .5} x display {absent, none, inline} x "
        "carrier {attribute, style, style contradicting attributes} x fill-rule 2 for might_paint(); documents of 2 such shapes in a translucent group + neighbours for remove_unpainted_shapes() "
        "(rendered by R3 before/after); 4 filled shapes of size 10^-k (k = 0..7) at the origin (paint must not depend on the unit of length); 12 multi-subpath paths x 6 attribute sets + every sequence of <= 3 (thorough 4) subpaths over 6 atoms (incl. repeated identical contours) x 3 (6) attribute sets for SVGPath.remove_empty_subpaths() (rendered before/after). Oracle: reference 'paints' (visible fill with area > 1e-4 "
        "under the rule, or visible stroke on a path with a segment) must imply might_paint(); 0 < area <= 1e-4 is undecided. Non-trivial = shape that paints per the reference or that the "
        "implementation prunes / documents where something was removed."
    )
    run.assumptions = ["areas of the library geometries are hand-computed constants", "slivers with 0 < area <= 1e-4 are not judged"]
    run.floor_nt = 500
    run.run_cases(MOD, cases(run.tier, run.seed), chunk=1)


def replay(case):
    if case.get("fam") == "one":
        return evaluate({"fam": "might", "geo": case["geo"], "carriers": ["attr", "style", "mixed"], "fos": OPS, "sos": OPS, "disps": DISPLAYS, "seed": 0})["viol"][:1]
    if case.get("fam") == "doc":
        return evaluate({"fam": "docs", "docs": [case["doc"]], "seed": 0})["viol"]
    if case.get("fam") == "sub":
        return evaluate({"fam": "subpaths", "paths": [(case["d"], case["attrs"])], "seed": 0})["viol"]
    return []
