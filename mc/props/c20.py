"""C20 - a reported reuse transform really maps one shape onto the other.

E2 + R1/R2: s over a library of outlines, T over a finite family of affine maps,
tolerances over three orders of magnitude.  Pairs (s, T(s)), (s, s), unrelated
pairs with the same command structure, near misses.  Whenever affine_between
returns a transform it is verified independently on the relative command form.
"""
import collections
import itertools
import math

from mc import core
from mc.ref import affine as A
from mc.ref import pathdata as R1

ID = "C20"
LEVEL = "exploration"
MOD = "mc.props.c20"

OUTLINES = {
    "polygon": ("path", "M10,10 L40,12 L35,40 L12,30 Z"),
    "polyline": ("path", "M5,5 L30,8 L22,25 L40,33"),
    "cubics": ("path", "M10,20 C15,5 30,5 35,20 C40,35 20,45 10,20 Z"),
    "quads": ("path", "M8,30 Q20,2 34,28 Q24,44 8,30 Z"),
    "hv": ("path", "M10,10 H40 V25 H22 V40 H10 Z"),
    "relative": ("path", "m10,10 l30,2 l-5,28 l-23,-10 z"),
    "shorthand": ("path", "M10,25 C12,10 25,10 27,25 S40,40 44,25 T50,12"),
    "multisub": ("path", "M10,10 L30,10 L20,28 Z M34,14 L48,20 L38,36 Z"),
    "arcs_circ": ("path", "M10,20 A12,12 0 0 1 34,20 A12,12 0 0 1 10,20 Z"),
    "arcs_ell": ("path", "M10,20 A14,8 0 0 1 38,20 A14,8 0 1 1 10,20 Z"),
    "arc_rot": ("path", "M12,30 A10,6 25 0 1 30,18 L14,12 Z"),
    "vline": ("path", "M10,5 L10,40"),
    "vbar": ("path", "M10,5 L10.4,5 L10.4,40 L10,40 Z"),
    "vcurve": ("path", "M10,5 C10.2,15 9.8,30 10,40"),
    "dot": ("path", "M10,10 L10.3,10 L10.3,10.4 L10,10.4 Z"),
    "rect": ("rect", dict(x=5, y=8, width=30, height=18)),
    "rrect": ("rect", dict(x=5, y=8, width=30, height=18, rx=4, ry=6)),
    "circle": ("circle", dict(cx=20, cy=22, r=9)),
    "ellipse": ("ellipse", dict(cx=20, cy=22, rx=12, ry=7)),
}
TOLS = [1e-3, 1e-2, 1e-1, 1.0]


def rot(deg):
    a = math.radians(deg)
    return (math.cos(a), math.sin(a), -math.sin(a), math.cos(a), 0.0, 0.0)


def transforms(tier):
    out = []
    tr = [(1, 0, 0, 1, dx, dy) for dx, dy in [(5, 0), (0, -7), (13.5, 2.25), (-40, 60), (0.004, 0), (100, 100), (1e-6, 0), (0, 0.5), (-3, -3)]]
    for t in tr:
        out.append(("translate", t))
    for k in range(1, 24):
        out.append(("rotate", rot(15 * k)))
    for s in (2, 0.5, 3.5, 0.1):
        out.append(("uscale", (s, 0, 0, s, 0, 0)))
    for sx, sy in ((2, 1), (1, 3), (0.5, 2), (1.5, 0.25), (4, 0.5), (0.3, 0.3001)):
        out.append(("nuscale", (sx, 0, 0, sy, 0, 0)))
    for m in ((-1, 0, 0, 1, 0, 0), (1, 0, 0, -1, 0, 0), (0, 1, 1, 0, 0, 0)):
        out.append(("mirror", m))
    for sh in ((1, 0, 0.5, 1, 0, 0), (1, 0.3, 0, 1, 0, 0), (1, 0.2, 0.4, 1, 0, 0), (1, -1, 0, 1, 0, 0)):
        out.append(("shear", sh))
    base = [x for x in out if x[0] in ("rotate", "uscale", "nuscale", "mirror")]
    prods = []
    for t in (tr[:3] if tier == "quick" else tr[:6]):
        for kind, m in base[:: (3 if tier == "quick" else 1)]:
            prods.append(("translate." + kind, A.mul(t, m)))
    if tier == "thorough":
        for (k1, m1), (k2, m2) in itertools.product([x for x in base if x[0] == "rotate"][::2], [x for x in base if x[0] in ("nuscale", "mirror", "uscale")]):
            prods.append((k1 + "." + k2, A.mul(m1, m2)))
            prods.append((k2 + "." + k1, A.mul(m2, m1)))
        for (k1, m1) in [x for x in out if x[0] == "shear"]:
            for t in tr[:4]:
                prods.append(("translate." + k1, A.mul(t, m1)))
    return out + prods


def outline_d(name):
    kind, spec = OUTLINES[name]
    if kind == "path":
        return spec
    from picosvg import svg_types as T

    cls = {"rect": T.SVGRect, "circle": T.SVGCircle, "ellipse": T.SVGEllipse}[kind]
    return cls(**spec).as_path().d


def shape_obj(name):
    from picosvg import svg_types as T

    kind, spec = OUTLINES[name]
    if kind == "path":
        return T.SVGPath(d=spec)
    cls = {"rect": T.SVGRect, "circle": T.SVGCircle, "ellipse": T.SVGEllipse}[kind]
    return cls(**spec)


def f(x):
    return repr(float(x))


def transformed_d(d, m):
    """Serialise T(path) with the same command structure (absolute commands; H/V -> L;
    shorthand expanded).  Arcs are mapped only when the image is expressible: similarity
    transforms, mirrors, and axis-aligned scaling of unrotated arcs; else None."""
    subs = R1.interpret_string(d)
    a, b, c, dd, e, ff = m
    det = a * dd - b * c
    sim = abs(a * c + b * dd) < 1e-12 and abs((a * a + b * b) - (c * c + dd * dd)) < 1e-12
    axis = abs(b) < 1e-15 and abs(c) < 1e-15
    P = lambda p: A.apply(m, p)
    out = []
    for s in subs:
        out.append("M%s,%s" % tuple(f(v) for v in P(s["start"])))
        for seg in s["segs"]:
            k = seg[0]
            if k == "L":
                out.append("L%s,%s" % tuple(f(v) for v in P(seg[2])))
            elif k == "Q":
                out.append("Q%s,%s %s,%s" % tuple(f(v) for p in (seg[2], seg[3]) for v in P(p)))
            elif k == "C":
                out.append("C%s,%s %s,%s %s,%s" % tuple(f(v) for p in (seg[2], seg[3], seg[4]) for v in P(p)))
            else:
                _, p0, rx, ry, rotd, fa, fs, p1 = seg
                if sim:
                    sc = math.sqrt(a * a + b * b)
                    ang = math.degrees(math.atan2(b, a))
                    if det < 0:
                        # reflection: angle of the image of the x axis, sweep flips, rotation mirrors
                        nrot = ang - rotd
                        nfs = 1 - fs
                    else:
                        nrot = ang + rotd
                        nfs = fs
                    nrx, nry = rx * sc, ry * sc
                elif axis and rotd % 180 == 0:
                    nrx, nry, nrot = rx * abs(a), ry * abs(dd), 0.0
                    nfs = fs if det > 0 else 1 - fs
                else:
                    return None
                q = P(p1)
                out.append(f"A{f(nrx)} {f(nry)} {f(nrot)} {fa} {nfs} {f(q[0])},{f(q[1])}")
        if s["closed"]:
            out.append("Z")
    return " ".join(out)


def relative_form(subs):
    """[(letter, [vectors...], extra)] - initial M as a point, everything else as displacement vectors"""
    out = []
    cur = None
    for i, s in enumerate(subs):
        st = s["start"]
        if cur is None:
            out.append(("M", [st], None))
        else:
            out.append(("m", [(st[0] - cur[0], st[1] - cur[1])], None))
        cur = st
        for seg in s["segs"]:
            k = seg[0]
            if k == "A":
                p1 = seg[-1]
                out.append(("a", [(p1[0] - cur[0], p1[1] - cur[1])], seg))
            else:
                pts = [p for p in seg[2:]]
                out.append((k.lower(), [(p[0] - cur[0], p[1] - cur[1]) for p in pts], None))
            cur = seg[-1]
        if s["closed"]:
            out.append(("z", [], None))
            cur = st
    return out


def verify(d1, d2, aff, tol):
    """independent verification of a reported transform; -> None or reason"""
    m = tuple(float(x) for x in aff)
    S1, S2 = R1.interpret_string(d1), R1.interpret_string(d2)
    r1, r2 = relative_form(S1), relative_form(S2)
    if [x[0] for x in r1] != [x[0] for x in r2]:
        return "command structure differs"
    lin = (m[0], m[1], m[2], m[3], 0.0, 0.0)
    eps = tol + 1e-9
    ncmd = len(r1)
    # reading 1: absolute coordinates, command for command, each within the tolerance.  Either reading suffices.
    has_arc = any(x[2] is not None for x in r1)
    if not has_arc:
        ok_abs = True
        for s_a, s_b in zip(S1, S2):
            pa = [s_a["start"]] + [p for seg in s_a["segs"] for p in seg[2:]]
            pb = [s_b["start"]] + [p for seg in s_b["segs"] for p in seg[2:]]
            if len(pa) != len(pb):
                ok_abs = False
                break
            for p, q in zip(pa, pb):
                img = A.apply(m, p)
                if abs(img[0] - q[0]) > eps or abs(img[1] - q[1]) > eps:
                    ok_abs = False
                    break
            if not ok_abs:
                break
        if ok_abs:
            return None
    for (l1, v1, a1), (l2, v2, a2) in zip(r1, r2):
        for p, q in zip(v1, v2):
            img = A.apply(m if l1 == "M" else lin, p)
            if abs(img[0] - q[0]) > eps * (1 + 1e-9) or abs(img[1] - q[1]) > eps * (1 + 1e-9):
                return f"{l1}: {p} maps to ({img[0]:.6g},{img[1]:.6g}) but the second shape has ({q[0]:.6g},{q[1]:.6g}) (tolerance {tol})"
        if a1 is not None:
            # arcs as point sets: samples of the first arc under the true affine image vs the second arc
            pts1 = R1.seg_points(a1, 16)
            pts2 = R1.seg_points(a2, 64)
            img = [A.apply(m, p) for p in pts1]
            d = R1.directed_dist(img, pts2)
            if d > ncmd * tol + 1e-6 * R1.scale_of(S2):
                return f"arc: image of the first arc is {d:.4g} away from the second arc (> {ncmd} x tolerance {tol})"
    # ceiling on absolute drift
    P1 = [p for s in S1 for p in [s["start"]] + [seg[-1] for seg in s["segs"]]]
    P2 = [p for s in S2 for p in [s["start"]] + [seg[-1] for seg in s["segs"]]]
    for p, q in zip(P1, P2):
        img = A.apply(m, p)
        if max(abs(img[0] - q[0]), abs(img[1] - q[1])) > ncmd * tol * 2 + 1e-9:
            return f"absolute drift: {p} -> ({img[0]:.6g},{img[1]:.6g}) vs {q} exceeds {2 * ncmd} x tolerance"
    return None


def judge(s1, d1, s2, d2, tol, expect):
    """expect: 'identity' | 'found' | 'any'"""
    from picosvg.svg_reuse import affine_between

    try:
        aff = affine_between(s1, s2, tol)
    except Exception as e:  # noqa
        # the statement constrains reported transforms; an exception reports nothing (recorded, not judged) -
        # except where a result is guaranteed
        if expect in ("identity", "found"):
            return "raised:" + type(e).__name__, f"affine_between raised {type(e).__name__}: {e} although a transform is guaranteed ({expect})"
        return "raised:" + type(e).__name__, None
    if aff is None:
        if expect in ("identity", "found"):
            return "none", f"no transform reported although one is guaranteed ({expect})"
        return "none", None
    why = verify(d1, d2, aff, tol)
    if why:
        return "reported", f"reported {tuple(aff)} does not map the first shape onto the second: {why}"
    if expect == "identity" and tuple(aff) != (1, 0, 0, 1, 0, 0):
        return "reported", f"identical shapes gave {tuple(aff)}, not the identity"
    return "reported", None


def evaluate(case):
    from picosvg.svg_types import SVGPath

    outs = collections.Counter()
    nts = set()
    viols = []
    n = 0
    sample = None
    name = case["name"]
    s1 = shape_obj(name)
    d1 = outline_d(name)
    tfs = transforms(case["tier"])
    items = []
    if case["fam"] == "T":
        for kind, m in tfs[case["lo"] : case["hi"]]:
            d2 = transformed_d(d1, m)
            if d2 is None:
                continue
            for tol in TOLS:
                exp = "found" if kind == "translate" else "any"
                items.append((kind, d2, tol, exp, "T"))
                # near misses: one coordinate moved
                for fac in (1.01, 2, 10):
                    items.append((kind, _perturb(d2, fac * tol), tol, "any", f"near{fac}"))
    elif case["fam"] == "same":
        # the same outline written differently (one command per line, tabs, CR LF, trailing newline): still the same shape
        import re as _re

        for sp in (_re.sub(r"\s*([A-Za-z])", lambda m: "\n" + m.group(1), d1).lstrip("\n") + "\n", _re.sub(r"\s*([A-Za-z])", lambda m: "\t" + m.group(1), d1), d1.replace(" ", "\r\n ") + " "):
            for tol in TOLS:
                items.append(("respelled", sp, tol, "identity", "same"))
        for tol in TOLS + [2.0, 10.0]:
            items.append(("same", d1, tol, "identity", "same"))
            # same numbers, one arc flag toggled: a different outline
            cmds = R1.exploded(R1.parse(R1_abs(d1)))
            for which in (3, 4):
                k = 0
                for idx, (c, a) in enumerate(cmds):
                    if c == "A":
                        a2 = list(a)
                        a2[which] = 1 - int(a2[which])
                        d2 = " ".join(_ser(cc, (a2 if j == idx else aa)) for j, (cc, aa) in enumerate(cmds))
                        items.append(("flagtoggle", d2, tol, "any", "flag"))
                        k += 1
                        if k >= 2:
                            break
    elif case["fam"] == "prefix":
        # one outline is a strict prefix of the other (same contour plus a hole / the stroke continued)
        base = R1_abs(d1)
        if base is not None:
            extras = [" M12,12 L20,12 L16,20 Z", " L3,3", " M0,0 L1,1", " Z" if not base.rstrip().endswith("Z") else " M5,5 Z"]
            for ex in extras:
                for tol in TOLS:
                    items.append(("prefix", base + ex, tol, "any", "prefix"))
    elif case["fam"] == "unrelated":
        for other in OUTLINES:
            if other == name:
                continue
            d2 = outline_d(other)
            for tol in TOLS:
                items.append(("unrelated:" + other, d2, tol, "any", "unrelated"))
    for kind, d2, tol, exp, tag in items:
        n += 1
        s2 = SVGPath(d=d2)
        if tag == "prefix" and n % 2:
            # longer outline first
            o, why = judge(s2, d2, SVGPath(d=d1) if OUTLINES[name][0] == "path" else s1, d1, tol, exp)
        else:
            o, why = judge(s1, d1, s2, d2, tol, exp)
        outs[f"{tag.rstrip('0123456789.')}/{o}"] += 1
        if o == "reported":
            nts.add(core.h64(repr((name, d2, tol))))
            if sample is None and tag == "T":
                sample = {"s1": d1, "s2": d2, "tolerance": tol, "kind": kind}
        if why and len(viols) < 8:
            viols.append({"sig": {"kind": "unsound-transform" if o == "reported" else "missing-transform", "outline": name, "pair": tag, "has_arc": "A" in d1, "T": kind.split(":")[0]}, "case": {"fam": "one", "name": name, "d1": d1, "d2": d2, "tol": tol, "expect": exp}, "detail": {"why": f"affine_between({name}, {d2!r}, {tol}): {why}"}})
        elif why:
            outs["more-violations"] += 1
    return {"n": n, "outs": outs, "nts": nts, "viol": viols, "sample": sample}


def _ser(c, a):
    if c == "A":
        return f"A{f(a[0])} {f(a[1])} {f(a[2])} {int(a[3])} {int(a[4])} {f(a[5])},{f(a[6])}"
    if c == "Z":
        return "Z"
    return c + " ".join(f(x) for x in a)


def R1_abs(d):
    """absolute, explicit form of d (same structure transformed_d produces)"""
    return transformed_d(d, (1.0, 0.0, 0.0, 1.0, 0.0, 0.0))


def _perturb(d, delta):
    """move the last coordinate of the second drawing command by delta"""
    cmds = R1.exploded(R1.parse(d))
    out = []
    done = False
    seen = 0
    for c, a in cmds:
        a = list(a)
        if c not in "MZ" and not done:
            seen += 1
            if seen == 2 or (seen == 1 and len(cmds) <= 3):
                a[-1] += delta
                done = True
        if c == "A":
            out.append(f"A{f(a[0])} {f(a[1])} {f(a[2])} {int(a[3])} {int(a[4])} {f(a[5])},{f(a[6])}")
        elif c == "Z":
            out.append("Z")
        else:
            out.append(c + " ".join(f(x) for x in a))
    return " ".join(out)


def cases(tier, seed):
    nt = len(transforms(tier))
    for name in OUTLINES:
        for lo in range(0, nt, 12):
            yield {"fam": "T", "name": name, "lo": lo, "hi": min(nt, lo + 12), "tier": tier}
        yield {"fam": "same", "name": name, "tier": tier}
        yield {"fam": "unrelated", "name": name, "tier": tier}
        yield {"fam": "prefix", "name": name, "tier": tier}


def run(run):
    run.rule = (
        f"E2: {len(OUTLINES)} outlines (polygon, open polyline, cubics, quads, H/V, relative, shorthand, multi-subpath, arcs rx=ry / rx!=ry / rotated, rect, rounded rect, circle, ellipse) x "
        f"{len(transforms(run.tier))} affine maps (9 translations, 23 rotations by multiples of 15 degrees, 4 uniform and 6 non-uniform scales, 3 mirrors, 4 shears, products translation.{{rotation, "
        "scale, mirror}}) x tolerances {1e-3, 1e-2, 1e-1, 1}; pairs (s, T(s)) with T(s) computed by the reference model and serialised in the same command structure, (s, s), all ordered pairs of "
        "distinct outlines, near misses (one coordinate moved by 1.01, 2, 10 x tolerance). Oracle: every reported transform is re-verified independently on the relative command form (same letters, "
        "every vector within tolerance; arcs as point sets; absolute drift ceiling); identical shapes give the identity; pure translations are found. Non-trivial = pairs for which a transform "
        "was reported (distinct)."
    )
    run.assumptions = ["'command for command, within the tolerance' is accepted under either reading: absolute coordinates each within the tolerance, or the relative command form within the tolerance plus an absolute drift ceiling", "images of arcs are generated only where expressible as an arc command (similarities, mirrors, axis-aligned scaling of unrotated arcs)"]
    run.floor_nt = 300
    run.run_cases(MOD, cases(run.tier, run.seed), chunk=1)


def replay(case):
    from picosvg.svg_types import SVGPath

    s1 = shape_obj(case["name"])
    o, why = judge(s1, case["d1"], SVGPath(d=case["d2"]), case["d2"], case["tol"], case["expect"])
    if why:
        return [{"sig": {"kind": "unsound-transform"}, "case": case, "detail": {"why": why}}]
    return []
