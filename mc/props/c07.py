"""C07 - conversion is idempotent: picosvg in, identical picosvg out.

E1 on the conversion function: the state graph whose nodes are documents (byte
strings) and whose single action is convert_n = fromstring -> topicosvg(ndigits=n)
-> tostring.  From every root document of the enumerated corpora the chain
root -> out1 -> out2 -> out3 is explored; out1 must be a fixed point and must
pass the library's own checkpicosvg().
"""
import collections
import glob
import importlib
import itertools
import os

from mc import core
from mc.gen import docs as G

ID = "C07"
LEVEL = "model_checking"
MOD = "mc.props.c07"


def convert(doc, nd, opts=None):
    from picosvg.svg import SVG

    return SVG.fromstring(doc).topicosvg(ndigits=nd, **(opts or {})).tostring()


def chain(doc, nd, opts=None):
    """-> (outcome, why, [documents seen])"""
    from picosvg.svg import SVG

    try:
        out1 = convert(doc, nd, opts)
    except Exception as e:  # noqa
        return "root-rejected:" + type(e).__name__, None, [doc]
    seen = [doc, out1]
    try:
        errs = SVG.fromstring(out1).checkpicosvg(allow_text=bool((opts or {}).get("allow_text")))
    except Exception as e:  # noqa
        return "returned", f"checkpicosvg() on the converted document raised {type(e).__name__}: {e}", seen
    if errs:
        return "returned", f"converted document fails checkpicosvg(): {errs}", seen
    try:
        out2 = convert(out1, nd, opts)
    except Exception as e:  # noqa
        return "returned", f"second conversion raised {type(e).__name__}: {e}", seen
    seen.append(out2)
    if out2 != out1:
        return "returned", "pass 2 differs from pass 1", seen
    try:
        out3 = convert(out2, nd, opts)
    except Exception as e:  # noqa
        return "returned", f"third conversion raised {type(e).__name__}: {e}", seen
    seen.append(out3)
    if out3 != out2:
        return "returned", "pass 3 differs from pass 2", seen
    return "returned", None, seen


def _first_diff(a, b):
    for i, (x, y) in enumerate(zip(a, b)):
        if x != y:
            return i
    return min(len(a), len(b))


def evaluate(case):
    doc = case["doc"]
    outs = collections.Counter()
    nts = set()
    states = set()
    viols = []
    n = 0
    trans = 0
    sample = None
    for nd, opts in [(nd, o) for o in case.get("opts", [{}]) for nd in (case["nds"] if not o else sorted(set(case["nds"]) & {0, 3}, reverse=True))]:
        n += 1
        o, why, seen = chain(doc, nd, opts)
        outs[o] += 1
        trans += max(0, len(seen) - 1) + (1 if o.startswith("root-rejected") else 0)
        for s in seen:
            states.add(core.h64(s))
        if o == "returned" and len(seen) > 1 and seen[1] != doc:
            nts.add(core.h64(doc + str(nd) + repr(opts)))
            if sample is None and len(doc) < 1200:
                sample = {"root": doc, "ndigits": nd, "fixed_point": seen[1][:1500]}
        if why:
            det = {"why": why, "ndigits": nd, "options": opts}
            if len(seen) >= 3:
                i = _first_diff(seen[-2], seen[-1])
                det["pass_a"] = seen[-2][max(0, i - 200) : i + 300]
                det["pass_b"] = seen[-1][max(0, i - 200) : i + 300]
            elif len(seen) == 2:
                det["pass_1"] = seen[1][:2000]
            viols.append({"sig": {"kind": "not-idempotent" if "differs" in why else "check-failed", "src": case.get("src", ""), "options": ",".join(sorted(opts or {}))}, "case": {"fam": "one", "doc": doc, "ndigits": nd, "opts": opts, "src": case.get("src", "")}, "detail": det})
    return {"n": n, "outs": outs, "nts": nts, "viol": viols[:3], "sample": sample, "sets": {"states": states}, "cnt": {"transitions": trans}}


def defs_order_docs(tier):
    """defs holding 3-4 gradients in every authored ORDER, of which one is unused / one is used only through a transform
    (so that a copy replaces it): where a gradient ends up in the output defs must not depend on gradients that get dropped"""
    st = '<stop offset="0" stop-color="red"/><stop offset="1" stop-color="blue"/>'
    for ids in (("a", "b", "c", "d"), ("g", "g_0", "h", "Z")):
        for perm in itertools.permutations(ids):
            for special in list(range(4)) + [None]:
                for mode in ("unused", "transformed"):
                    if special is None and mode == "transformed":
                        continue
                    if tier == "quick" and ids[0] == "g" and mode == "unused":
                        continue
                    defs = "".join(f'<linearGradient id="{i}" x2="{k + 1}">{st}</linearGradient>' for k, i in enumerate(perm))
                    body = ""
                    for k, i in enumerate(ids):
                        if special is not None and ids[special] == i:
                            if mode == "unused":
                                continue
                            body += f'<rect x="{k * 20}" width="10" height="10" fill="url(#{i})" transform="translate(1 {k})"/>'
                        else:
                            body += f'<rect x="{k * 20}" width="10" height="10" fill="url(#{i})"/>'
                    yield f'<svg {G.NS} viewBox="0 0 100 100"><defs>{defs}</defs>{body}</svg>'


def near_closed_docs(tier):
    """contours whose last point misses the start by less / more than half a unit of the last rounded digit, at small and
    large coordinates (where a relative comparison and an absolute one disagree); relative and absolute spellings"""
    combos = [(base, eps) for base in (0.0, 1e3, 1e6, 1e9) for eps in (4e-1, 4e-4, 6e-4, 4e-7, 6e-7, 1e-9) if not (base >= 1e9 and eps < 1e-4)]
    # ... and a few rounding quanta off the start at coordinates of several 1e9 quanta (where 1e-9 x coordinate is a few quanta)
    for nd in range(7):
        q = 10.0 ** -nd
        combos += [(f * 1e9 * q, k * q) for f in (1.2, 4.2) for k in (1.3, 2.45, 4.7, 9.3)]
    for base, eps in combos:
        if True:
            x0, y0 = base, 2 * base
            a = f"M{x0!r},{y0!r} L{x0 + 10!r},{y0!r} L{x0 + 10!r},{y0 + 10!r} L{x0 + eps!r},{y0 + eps * .75!r} Z"
            r = f"M{x0!r},{y0!r} l10,0 l0,10 l{-10 + eps!r},{-10 + eps * .75!r} z m20,0 h5 v5 z"
            c = f"M{x0!r},{y0!r} C{x0 + 5!r},{y0 - 5!r} {x0 + 10!r},{y0 + 5!r} {x0 + 10!r},{y0 + 10!r} C{x0 + 5!r},{y0 + 12!r} {x0!r},{y0 + 6!r} {x0 - eps!r},{y0 + eps!r} Z"
            vb = f"{x0 - 5!r} {y0 - 5!r} 40 40"
            for d in (a, r, c):
                yield f'<svg {G.NS} viewBox="{vb}"><path d="{d}" fill="red"/><g opacity=".5"><path d="{d}" fill="blue" transform="translate(3 3)"/><rect x="{x0!r}" y="{y0!r}" width="4" height="4"/></g></svg>'


def fading_docs(tier):
    """1-6 nested translucent groups whose innermost shapes fade out when opacities are multiplied and rounded, level by level
    (each flattening exposes the next): the tidy-up must run to its fixed point however deep the nesting"""

    def rect(x, y, o):
        return f'<rect x="{x}" y="{y}" width="20" height="20" opacity="{o}"/>'

    for levels in range(1, 7 if tier == "quick" else 9):
        for g, fading, survivor, top in (("0.02", ("0.02", "0.0004"), "0.7777", "0.33"), ("0.2", ("0.2", "0.04"), "0.77", "0.33"), ("0.06", ("0.06", "0.004"), "0.777", "0.33"), ("0.5", ("0.5", "0.9"), "0.5", "0.5")):
            body = rect(1, 1, fading[0]) + rect(5, 5, fading[1])
            body = f'<g opacity="{g}">{body}</g>'
            for i in range(levels - 2):
                body = f'<g opacity="{g}">{body}{rect(30 + 4 * i, 30, fading[0])}</g>'
            if levels >= 2:
                body = f'<g opacity="{top}">{body}{rect(60, 60, survivor)}</g>'
            else:
                body = body[: -len("</g>")] + rect(60, 60, survivor) + "</g>"
            yield f'<svg {G.NS} viewBox="0 0 100 100">{body}</svg>'


def corpus(tier, seed):
    """yield (source-label, document) - the union of the other checks' enumerated corpora"""
    for d in fading_docs(tier):
        yield "FADING", d
    for d in near_closed_docs(tier):
        yield "NEARCLOSED", d
    from mc.gen import big

    for label, d in big.all_docs(tier):
        yield "BIG", d
    for d in defs_order_docs(tier):
        yield "DEFS", d
    base = G.kinds("base")
    groups = G.kinds("groups")
    for k in base + groups:
        yield "G1" + ("g" if (":" in k or k in G.NESTED) else ""), G.document([k])
        yield "G1fill", G.document([k], "fill")
    for a, b in itertools.product(base, repeat=2):
        if not G.has_unsupported([a, b]):
            yield "G2", G.document([a, b])
    if tier == "thorough":
        for g in groups:
            for b in ("rect", "stroked", "clipped", "lingrad", "invisible", "use", "radgrad", "nestedsvg"):
                yield "G2g", G.document([g, b])
                yield "G2g", G.document([b, g], "stroke")
    # reference-sharing documents of C08
    c08 = importlib.import_module("mc.props.c08")
    lens = [1, 2] if tier == "quick" else [1, 2]
    for setup in c08.SETUPS:
        targets = ["g", "h"] if setup != "g" else ["g"]
        alphabet = [(k, t) for k in c08.REFERRERS for t in targets]
        for collision in c08.COLLISIONS if tier == "thorough" else ["none", "grad:g_0"]:
            for nested, clip in ((False, False), (True, True)) if tier == "quick" else itertools.product((False, True), repeat=2):
                for L in lens:
                    for seq in itertools.product(alphabet, repeat=L):
                        yield "C08", c08.document(setup, collision, seq, nested, clip, "s" if L == 1 else "")
    # templates / shapes with ids in defs next to three or more gradients that get transformed copies (nested svg without clip),
    # at the finest rounding as well: the order of defs must not depend on what leaves defs later
    if tier == "quick":
        for setup in ("h->g->t", "g+h"):
            targets = ["g", "h"]
            for seq in itertools.product([(k, t) for k in ("xf2", "fadegroupxf", "use2", "vis") for t in targets], repeat=2):
                yield "C08n", c08.document(setup, "grad:g_0", seq, True, False, "")
    # rendering corpora of the other checks, when they expose one
    for modname in ("c02", "c03", "c04", "c05", "c06", "c19"):
        try:
            m = importlib.import_module("mc.props." + modname)
        except Exception:
            continue
        if hasattr(m, "corpus_for_c07"):
            for d in m.corpus_for_c07(tier, seed):
                yield modname.upper(), d
    for f in sorted(glob.glob(os.environ.get("VERIF_REPO", "/repo") + "/tests/*.svg")):
        try:
            yield "F:" + os.path.basename(f), open(f).read()
        except Exception:
            pass


def cases(tier, seed):
    k = 0
    for src, doc in corpus(tier, seed):
        k += 1
        if tier == "quick":
            nds = [3] if k % 16 else [0, 1, 2, 3, 4, 5, 6]
        else:
            nds = [3] if k % 4 else [0, 1, 2, 3, 4, 5, 6]
        if src.startswith("F:"):
            nds = [3, 0, 6] if tier == "quick" else [0, 1, 2, 3, 4, 5, 6]
        if src == "C08n":
            nds = [3, 6]
        if src in ("NEARCLOSED", "FADING"):
            nds = [0, 1, 2, 3, 4, 5, 6]
        if src == "BIG":
            nds = [0, 1, 3, 6]
        if src == "G1g":
            # kept / flattened groups: opacity products meet the coarsest and the default rounding
            nds = [0, 1, 3] if tier == "quick" else [0, 1, 2, 3, 4, 5, 6]
        opts = [{}]
        if any(t in doc for t in ("<image", "<mask", "<filter", "<pattern", "<a ", "<foreignObject", "<style>", "<symbol id")):
            opts.append({"drop_unsupported": True})
        if "<text" in doc:
            opts.append({"allow_text": True})
            opts.append({"allow_text": True, "drop_unsupported": True})
        if len(opts) > 1 and nds == [3]:
            nds = [3, 0]
        yield {"doc": doc, "nds": nds, "src": src, "opts": opts}


def run(run):
    run.rule = (
        "E1 on the conversion function: roots = the enumerated corpora of C01 (all single kinds, all pairs of base kinds, root attribute), C08 (reference sharing), "
        "1-6 nested translucent groups whose contents fade out level by level (all ndigits), 18 larger documents (mc/gen/big.py), near-closed contours (last point 1e-9 .. 0.4 off the start, coordinates around 0, 1e3, 1e6, 1e9; all ndigits), all authored orders of 4 gradients in defs with one unused / one replaced by a transformed copy (2 id sets), the rendering checks' corpora (C02-C06, C19) and every svg file under /repo/tests; options: default, plus drop_unsupported=True on documents with unsupported elements and allow_text (+drop_unsupported) on documents with text; ndigits 3 (and 0) everywhere, all of 0..6 on every 16th (quick) / 4th (thorough) "
        "root and on the repository files. From each root: root -> out1 -> out2 -> out3. Oracle: out2 == out1 and out3 == out2 byte for byte; "
        "SVG.fromstring(out1).checkpicosvg() == (). states = distinct documents seen, transitions = conversions. Non-trivial = root converts and out1 != root."
    )
    run.floor_nt = 200
    run.run_cases(MOD, cases(run.tier, run.seed), chunk=8)
    run.cov["states"] = len(run.sets.get("states", ()))
    run.cov["transitions"] = int(run.cnt.get("transitions", 0))
    run.cov["traces_validated_against_impl"] = int(run.cnt.get("transitions", 0))
    run.cov["explanation"] = "every transition is an execution of the real topicosvg; there is no separate model to conform"


def replay(case):
    o, why, seen = chain(case["doc"], case["ndigits"], case.get("opts"))
    if why:
        return [{"sig": {"kind": "not-idempotent"}, "case": case, "detail": {"why": why}}]
    return []
