"""Self-tests of the reference models against hand-computed cases from the SVG
specification and analytic identities.  Run by setup.sh and `./check --selftest`."""
import math

import numpy as np

from mc.ref import affine as A
from mc.ref import gradient, pathdata as R1, picogrammar as R4, scene, stroke3


def approx(a, b, tol=1e-9):
    return abs(a - b) <= tol


def test_path_grammar_examples():
    # SVG 1.1 8.3: examples and the "superfluous white space may be eliminated" rules
    assert R1.exploded(R1.parse("M 100 100 L 300 100 L 200 300 z")) == [("M", (100, 100)), ("L", (300, 100)), ("L", (200, 300)), ("z", ())]
    assert R1.exploded(R1.parse("M100,200 C100,100 250,100 250,200 S400,300 400,200")) == [("M", (100, 200)), ("C", (100, 100, 250, 100, 250, 200)), ("S", (400, 300, 400, 200))]
    assert R1.exploded(R1.parse("M 0.6.5")) == [("M", (0.6, 0.5))]
    assert R1.exploded(R1.parse("M 100-200")) == [("M", (100, -200))]
    assert R1.exploded(R1.parse("M1 2 3 4 5 6")) == [("M", (1, 2)), ("L", (3, 4)), ("L", (5, 6))]
    assert R1.exploded(R1.parse("m1 2 3 4")) == [("m", (1, 2)), ("l", (3, 4))]
    assert R1.exploded(R1.parse("M0 0a1 1 0 1 0 2 2")) == [("M", (0, 0)), ("a", (1, 1, 0, 1, 0, 2, 2))]
    assert R1.exploded(R1.parse("M0 0a1 1 0 102 2")) == [("M", (0, 0)), ("a", (1, 1, 0, 1, 0, 2, 2))]
    assert R1.exploded(R1.parse("M007 5")) == [("M", (7, 5))]
    assert R1.exploded(R1.parse("M1e2,1E-1")) == [("M", (100, 0.1))]
    for bad in ["L1 1", "M1", "M1,,2", "M1 2,", "M1 2 3", "M1e", "M.", "Mz", "M1 2 x", "1 2", "M1 2 L"]:
        try:
            R1.parse(bad)
        except R1.Reject:
            continue
        raise AssertionError(f"{bad!r} should be rejected")


def test_path_interpreter_rules():
    # current point after z is the subpath start; a drawing command then starts a new subpath there
    s = R1.interpret_string("M1,1 L5,1 L5,5 z l1,1")
    assert len(s) == 2 and s[1]["start"] == (1, 1) and s[1]["segs"][0] == ("L", (1, 1), (2, 2))
    # S reflects only after C/S, T only after Q/T
    s = R1.interpret_string("M0,0 Q5,5 10,0 S15,5 20,0")
    assert s[0]["segs"][1] == ("C", (10, 0), (10, 0), (15, 5), (20, 0))
    s = R1.interpret_string("M0,0 C0,5 5,5 10,0 S15,5 20,0")
    assert s[0]["segs"][1] == ("C", (10, 0), (15, -5), (15, 5), (20, 0))
    s = R1.interpret_string("M0,0 Q5,5 10,0 T20,0")
    assert s[0]["segs"][1] == ("Q", (10, 0), (15, -5), (20, 0))
    s = R1.interpret_string("M0,0 L10,0 T20,0")
    assert s[0]["segs"][1] == ("Q", (10, 0), (10, 0), (20, 0))
    # H / V, relative forms, leading relative moveto is absolute
    s = R1.interpret_string("m2,3 h4 v5 H1 V1")
    assert [seg[2] for seg in s[0]["segs"]] == [(6, 3), (6, 8), (1, 8), (1, 1)]


def test_arc_centre_parametrisation():
    # two unit circles through A=(1,0), B=(0,1): centres (0,0) and (1,1)
    Apt, B = (1.0, 0.0), (0.0, 1.0)
    for fa, fs, centre, dth in [(0, 1, (0, 0), math.pi / 2), (1, 0, (0, 0), -3 * math.pi / 2), (0, 0, (1, 1), -math.pi / 2), (1, 1, (1, 1), 3 * math.pi / 2)]:
        cx, cy, rx, ry, phi, th1, d = R1.arc_center(Apt, 1, 1, 0, fa, fs, B)
        assert approx(cx, centre[0], 1e-12) and approx(cy, centre[1], 1e-12) and approx(d, dth, 1e-12), (fa, fs, cx, cy, d)
    # radii too small are scaled up uniformly: chord 10, radii 1,1 -> 5,5, centre at the midpoint
    cx, cy, rx, ry, phi, th1, d = R1.arc_center((0, 0), 1, 1, 0, 0, 1, (10, 0))
    assert approx(rx, 5) and approx(ry, 5) and approx(cx, 5) and approx(cy, 0, 1e-9) and approx(abs(d), math.pi, 1e-9)
    # negative radii: absolute value; zero radius / coincident points: no ellipse
    assert R1.arc_center((0, 0), -5, 5, 0, 0, 1, (10, 0))[2] == 5
    assert R1.arc_center((0, 0), 0, 5, 0, 0, 1, (10, 0)) is None
    assert R1.arc_center((3, 3), 2, 5, 0, 0, 1, (3, 3)) is None
    # points of the arc lie on the ellipse (rotated case)
    cp = R1.arc_center((10, 20), 14, 8, 30, 1, 1, (30, 25))
    for t in (0, 0.25, 0.5, 1):
        x, y = R1.arc_point(cp, t)
        dx, dy = x - cp[0], y - cp[1]
        c, s = math.cos(cp[4]), math.sin(cp[4])
        u, v = (c * dx + s * dy) / cp[2], (-s * dx + c * dy) / cp[3]
        assert approx(u * u + v * v, 1, 1e-9)
    assert all(approx(a, b, 1e-9) for a, b in zip(R1.arc_point(cp, 0), (10, 20)))
    assert all(approx(a, b, 1e-9) for a, b in zip(R1.arc_point(cp, 1), (30, 25)))


def test_tight_boxes():
    b = R1.tight_box(R1.interpret_string("M0,0 C0,10 10,10 10,0"))
    assert approx(b[3], 7.5) and b[0] == 0 and b[2] == 10 and b[1] == 0
    b = R1.tight_box(R1.interpret_string("M0,0 Q5,10 10,0"))
    assert approx(b[3], 5.0)
    b = R1.tight_box(R1.interpret_string("M10,0 A10,10 0 1 1 -10,0 A10,10 0 1 1 10,0 Z"))
    assert all(approx(x, y, 1e-9) for x, y in zip(b, (-10, -10, 10, 10)))


def test_affine_and_viewbox():
    m = A.list_matrix(A.parse_transform_list("rotate(90)"))
    x, y = A.apply(m, (1, 0))
    assert approx(x, 0, 1e-12) and approx(y, 1, 1e-12)
    # SVG 1.1 7.6: translate(50,90) rotate(-45) translate(130,160) is the product in that order
    m = A.list_matrix(A.parse_transform_list("translate(50,90),rotate(-45) translate(130 160)"))
    c = math.cos(math.radians(-45))
    s = math.sin(math.radians(-45))
    assert approx(m[4], 50 + 130 * c - 160 * s, 1e-9) and approx(m[5], 90 + 130 * s + 160 * c, 1e-9)
    m = A.list_matrix(A.parse_transform_list("rotate(30, 10, 5)"))
    assert all(approx(a, b, 1e-12) for a, b in zip(A.apply(m, (10, 5)), (10, 5)))
    m = A.list_matrix(A.parse_transform_list("skewX(45)"))
    assert all(approx(a, b, 1e-12) for a, b in zip(A.apply(m, (0, 1)), (1, 1)))
    # SVG 1.1 7.8 figure: viewBox 0 0 1500 1000 into a 300x200 viewport -> uniform 0.2
    assert tuple(A.viewbox_transform((0, 0, 1500, 1000), (0, 0, 300, 200))) == (0.2, 0, 0, 0.2, 0, 0) or all(approx(float(a), b) for a, b in zip(A.viewbox_transform((0, 0, 1500, 1000), (0, 0, 300, 200)), (0.2, 0, 0, 0.2, 0, 0)))
    # 30x40 viewBox in a 50x30 viewport (preserveAspectRatio figure): meet -> scale .75, slice -> 5/3
    m = A.viewbox_transform((0, 0, 30, 40), (0, 0, 50, 30), "xMinYMin", "meet")
    assert approx(float(m[0]), 0.75) and float(m[4]) == 0 and float(m[5]) == 0
    m = A.viewbox_transform((0, 0, 30, 40), (0, 0, 50, 30), "xMaxYMid", "meet")
    assert approx(float(m[4]), 50 - 22.5) and approx(float(m[5]), 0)
    m = A.viewbox_transform((0, 0, 30, 40), (0, 0, 50, 30), "xMidYMax", "slice")
    assert approx(float(m[0]), 50 / 30) and approx(float(m[5]), 30 - 40 * 50 / 30)
    for bad in ["rotate(1", "scale()", "foo(1)", "translate(1 2 3)", "matrix(1 2 3)", "rotate(1,2)", "ROTATE(1)"]:
        try:
            A.parse_transform_list(bad)
        except ValueError:
            continue
        raise AssertionError(bad)


def test_winding_and_fill_rules():
    star = np.array([[50, 12], [73, 82], [13, 38], [87, 38], [27, 82]], dtype=float)
    centre = np.array([[50.0, 50.0], [50.0, 20.0], [5.0, 5.0]])
    w = scene.winding(centre, [star])
    assert w[0] in (2, -2) and abs(w[1]) == 1 and w[2] == 0
    sq = np.array([[0, 0], [10, 0], [10, 10], [0, 10]], dtype=float)
    pts = scene.lattice((0, 0, 10, 10), 40, 0)
    ins = scene.winding(pts, [sq]) != 0
    # lattice spans 15x15 -> inside fraction = 100/225
    assert abs(ins.mean() - 100 / 225) < 0.02
    # circle area through the renderer
    S = scene.build('<svg xmlns="http://www.w3.org/2000/svg" viewBox="0 0 100 100"><circle cx="50" cy="50" r="30" fill="red"/></svg>')
    P = scene.lattice(S.viewbox, 60, 0)
    cov = S.coverage(P)[0]
    frac = (cov == 1).sum() / (cov != -1).sum()
    assert abs(frac - math.pi * 900 / 22500) < 0.01, frac


def test_winding_against_skia():
    """two independent implementations must agree on point containment (Skia validates the oracle only)"""
    import pathops

    shapes = {
        "star": [(50, 12), (73, 82), (13, 38), (87, 38), (27, 82)],
        "nested": [(20, 20), (80, 20), (80, 80), (20, 80)],
        "bowtie": [(10, 10), (90, 90), (90, 10), (10, 90)],
    }
    pts = scene.lattice((0, 0, 100, 100), 25, 3)
    for name, poly in shapes.items():
        P = np.array(poly, dtype=float)
        d = scene.edge_distance(pts, [P])
        for rule, ft in (("nonzero", pathops.FillType.WINDING), ("evenodd", pathops.FillType.EVEN_ODD)):
            sk = pathops.Path(fillType=ft)
            sk.moveTo(*poly[0])
            for p in poly[1:]:
                sk.lineTo(*p)
            sk.close()
            w = scene.winding(pts, [P])
            mine = (w != 0) if rule == "nonzero" else (w % 2 != 0)
            if not hasattr(sk, "contains"):
                return
            for k in range(len(pts)):
                if d[k] > 0.5:
                    assert bool(sk.contains((float(pts[k][0]), float(pts[k][1])))) == bool(mine[k]), (name, rule, pts[k])


def test_gradient_evaluator():
    g = {"kind": "linear", "units": "userSpaceOnUse", "transform": A.I, "spread": "pad", "x1": 0, "y1": 0, "x2": 10, "y2": 0, "stops": [(0, (255, 0, 0), 1.0), (1, (0, 0, 255), 1.0)]}
    pts = np.array([[0.0, 5], [5, 3], [10, 0], [15, 0], [-5, 0]])
    t, rgb, a = gradient.evaluate(g, pts, A.I, None)
    assert np.allclose(t, [0, 0.5, 1, 1.5, -0.5]) and np.allclose(rgb[1], [127.5, 0, 127.5]) and np.allclose(rgb[3], [0, 0, 255]) and np.allclose(rgb[4], [255, 0, 0])
    g["spread"] = "reflect"
    t, rgb, a = gradient.evaluate(g, pts, A.I, None)
    assert np.allclose(rgb[3], [127.5, 0, 127.5]) and np.allclose(rgb[4], [127.5, 0, 127.5])
    g["spread"] = "repeat"
    t, rgb, a = gradient.evaluate(g, pts, A.I, None)
    assert np.allclose(rgb[3], [127.5, 0, 127.5])
    # objectBoundingBox: bbox (10,20)-(30,60), default vector (0,0)->(1,0)
    g2 = dict(g, units="objectBoundingBox", spread="pad", x1=0, y1=0, x2=1, y2=0)
    t, _, _ = gradient.evaluate(g2, np.array([[10.0, 30], [20, 50], [30, 25]]), A.I, (10, 20, 30, 60))
    assert np.allclose(t, [0, 0.5, 1])
    # radial: centred focal point -> t = distance / r ; shifted focus: points on the end circle have t = 1
    r = {"kind": "radial", "units": "userSpaceOnUse", "transform": A.I, "spread": "pad", "cx": 0, "cy": 0, "r": 10, "fx": 0, "fy": 0, "fr": 0, "stops": g["stops"]}
    t, _, _ = gradient.evaluate(r, np.array([[3.0, 4], [10, 0], [0, 20]]), A.I, None)
    assert np.allclose(t, [0.5, 1, 2])
    r2 = dict(r, fx=4, fy=0)
    ang = np.linspace(0, 2 * math.pi, 9)[:-1]
    t, _, _ = gradient.evaluate(r2, np.stack([10 * np.cos(ang), 10 * np.sin(ang)], 1), A.I, None)
    assert np.allclose(t, 1)
    t, _, _ = gradient.evaluate(r2, np.array([[4.0, 0]]), A.I, None)
    assert np.allclose(t, 0)
    r3 = dict(r, fr=2)
    t, _, _ = gradient.evaluate(r3, np.array([[2.0, 0], [6, 0], [10, 0]]), A.I, None)
    assert np.allclose(t, [0, 0.5, 1])


def test_stroke_classifier():
    line = [{"pts": [(0, 0), (100, 0)], "corner": [True, True], "closed": False}]
    st = {"width": 10, "cap": "butt", "join": "bevel", "miterlimit": 4, "dash": [], "offset": 0}
    pts = np.array([[50, 3], [50, 4.7], [50, 7], [50, -4], [-3, 0], [-8, 0], [103, 0], [50, 5.2]], dtype=float)
    r = stroke3.classify(line, st, pts)
    assert list(r[:4]) == [1, -1, 0, 1] and r[4] == -1 and r[5] == 0 and r[7] == -1, r
    st2 = dict(st, cap="round")
    r = stroke3.classify(line, st2, pts)
    assert r[4] == 1 and r[6] == 1 and r[5] == 0, r
    st3 = dict(st, cap="square")
    r = stroke3.classify(line, st3, np.array([[-3.0, 3], [-3, -4], [-6, 0], [-8, 6]]))
    assert list(r) == [1, 1, -1, 0], r
    # dashes 10 on / 30 off, offset 0: on [0,10], [40,50] ...
    st4 = dict(st, dash=[10, 30])
    r = stroke3.classify(line, st4, np.array([[5.0, 0], [25, 0], [45, 2], [10.2, 0], [25, 20]]))
    assert list(r) == [1, 0, 1, -1, 0], r
    # a positive offset starts the pattern that far into the first dash: on [0,5], [35,45] ...
    st5 = dict(st, dash=[10, 30], offset=5)
    r = stroke3.classify(line, st5, np.array([[2.0, 0], [20, 0], [40, 0], [8, 0]]))
    assert list(r) == [1, 0, 1, -1], r
    # a negative offset delays it: off [0,3), on [3,13]
    st6 = dict(st, dash=[10, 30], offset=-3)
    r = stroke3.classify(line, st6, np.array([[1.0, 12], [8, 0], [25, 0]]))
    assert list(r) == [0, 1, 0], r
    # closed square: inside of the corner region for round joins only
    sq = [{"pts": [(0, 0), (40, 0), (40, 40), (0, 40)], "corner": [True] * 4, "closed": True}]
    p = np.array([[-3.0, -3.0], [20, 3], [20, 20]])
    assert list(stroke3.classify(sq, dict(st, join="round"), p)) == [1, 1, 0]
    assert list(stroke3.classify(sq, dict(st, join="bevel"), p)) == [-1, 1, 0]


def test_grammar_validator():
    ok = '<svg xmlns="http://www.w3.org/2000/svg" viewBox="0 0 10 10"><defs><linearGradient id="g" x1="0" y1="0" x2="1" y2="0"><stop offset="0"/></linearGradient></defs><path d="M1,1 L2,2 Z" fill="url(#g)"/><g opacity="0.5"><path d="M0,0 L1,0 L1,1 Z"/><path d="M0,0 Q1,0 1,1 A1 1 0 0 1 0,0 Z"/></g></svg>'
    assert R4.validate(ok, require_stops=True) == []
    cases = {
        "transform": ok.replace('<path d="M1,1', '<path transform="scale(2)" d="M1,1'),
        "stroke": ok.replace('<path d="M1,1', '<path stroke="red" d="M1,1'),
        "evenodd": ok.replace('<path d="M1,1', '<path style="fill-rule:evenodd" d="M1,1'),
        "relative": ok.replace("L2,2", "l2,2"),
        "H": ok.replace("L2,2", "H2"),
        "rounding": ok.replace("L2,2", "L2.00004,2"),
        "one-child group": ok.replace('<path d="M0,0 L1,0 L1,1 Z"/>', ""),
        "group attr": ok.replace('<g opacity="0.5">', '<g opacity="0.5" fill="red">'),
        "group opacity 1": ok.replace('<g opacity="0.5">', '<g opacity="1">'),
        "use": ok.replace("</svg>", '<use href="#g"/></svg>'),
        "rect": ok.replace("</svg>", '<rect width="1" height="1"/></svg>'),
        "second defs": ok.replace("</svg>", "<defs/></svg>"),
        "defs not first": ok.replace("<defs>", '<path d="M0,0 L1,1 L1,0 Z"/><defs>'),
        "href": ok.replace('<linearGradient id="g"', '<linearGradient xmlns:xlink="http://www.w3.org/1999/xlink" xlink:href="#x" id="g"'),
        "percent": ok.replace('x2="1"', 'x2="100%"'),
        "root fill": ok.replace('viewBox="0 0 10 10"', 'viewBox="0 0 10 10" fill="red"'),
        "comment": ok.replace("<defs>", "<!-- c --><defs>"),
        "clip": ok.replace('<path d="M1,1', '<path clip-path="url(#c)" d="M1,1'),
    }
    for name, doc in cases.items():
        assert R4.validate(doc, require_stops=True), name
