#!/bin/bash
# setup_cmd: offline install of numpy + jsonschema into /verif/.deps, then oracle self-tests.
set -e
cd "$(dirname "$0")"
if ! PYTHONPATH=/verif/.deps /venv/bin/python -c "import numpy, jsonschema" 2>/dev/null; then
  rm -rf .deps
  PIP_NO_INDEX=1 /venv/bin/pip install --no-index --find-links /opt/veriftools/wheels \
      --target /verif/.deps numpy jsonschema >/dev/null
fi
PYTHONPATH=/verif/.deps /venv/bin/python -c "import numpy, jsonschema; print('deps ok', numpy.__version__)"
./check --selftest
