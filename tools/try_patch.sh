#!/bin/bash
# tools/try_patch.sh <patch.diff> <ID> [<ID>...]   apply to /repo, run quick checks, always revert.
# prints one line per check: DETECTED / MISSED
P=$(realpath "$1"); shift
cd /repo || exit 2
if ! git diff --quiet; then echo "repo dirty, refusing"; exit 2; fi
git apply "$P" || { echo "patch does not apply"; exit 2; }
trap 'git -C /repo checkout -- . ' EXIT
cd /verif
for id in "$@"; do
  out=$(VERIF_NO_EVIDENCE=1 timeout 1200 ./check "$id" ${TIER:-quick} 2>&1); rc=$?
  nv=$(echo "$out" | grep -c '^VIOLATION')
  if [ $rc -ne 0 ]; then echo "$id DETECTED rc=$rc violations_printed=$nv :: $(echo "$out" | grep -m1 -A1 '^VIOLATION' | tail -1 | cut -c1-220)"; else echo "$id MISSED rc=0"; fi
done
