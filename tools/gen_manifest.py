#!/venv/bin/python
"""Regenerate /verif/MANIFEST.json from the table below (kept in one place so the
not_applicable list is always the complement of the claimed checks)."""
import json, os, sys

V = os.path.dirname(os.path.dirname(os.path.abspath(__file__)))
ALL = [f"C{i:02d}" for i in range(1, 21)]

E2 = "bounded-exhaustive enumeration of the stated finite input space on the real implementation, judged by an independent reference model"
CLAIMED = {
    "C10": dict(
        level="exploration",
        technique="bounded-exhaustive enumeration (all strings <= L over a reduced alphabet, token/separator products, all 1-char hostile edits, float-pair round trips) vs reference path grammar",
        text="Every member of four explicitly bounded families of path strings / command sequences is executed on parse_svg_path and SVGPath.from_commands and compared with a greedy recursive-descent parser written from the SVG path BNF; nothing is sampled. Exhaustive within the stated bounds, not a proof for longer strings or other characters.",
        note="Trusted: the reference grammar R1 (mc/ref/pathdata.py, self-tested against hand-derived cases); alphabet-reduction assumption stated in the evidence.",
        design="DESIGN.md 3/C10",
    ),
}
CLAIMED["C09"] = dict(
    level="exploration",
    technique="bounded-exhaustive enumeration of command sequences over the 20 path commands (walker state machine) + all 1-2 command substitutions in long paths + shape parameter lattice, vs independent path interpreter",
    text="Every command sequence up to the length bound (with degenerate argument variants), every single/double substitution in three long base paths and a lattice of basic-shape parameters is pushed through every public path rewrite; results are interpreted by an independent SVG path interpreter (R1) and compared subpath by subpath (structure, end points, closedness, two-sided distance, signed area). Exhaustive within the stated bounds.",
    note="Trusted: R1 interpreter/arc geometry (self-tested); inputs on a 1/8 lattice; arcs with distinct end points closer than 1e-7 are excluded as ill-conditioned (their meaning is discontinuous under the rewrites' 1e-9 snapping).",
    design="DESIGN.md 3/C09",
)
CLAIMED["C12"] = dict(
    level="exploration",
    technique="bounded-exhaustive product lattice over arc parameters vs independent F.6.5 centre parametrisation",
    text="Every arc of a product lattice (7x7 radii incl. zero/negative/tiny/huge, 10 rotations, 4 flag pairs, end-point lattice incl. the start, boundary families where the radii exactly/barely fit) is converted by arc_to_cubic and each cubic is sampled and mapped into the unit-circle frame of the independently computed corrected ellipse. Exhaustive over the lattice; a bounded claim about a continuous domain.",
    note="Trusted: R1 arc geometry (F.6.5/F.6.6) and the 17-sample-per-cubic discretisation; total-angle check skipped within 1e-6 of 0 / 2pi.",
    design="DESIGN.md 3/C12",
)
CLAIMED["C01"] = dict(
    level="exploration",
    technique="bounded-exhaustive enumeration of documents (child sequences over an alphabet of supported/unsupported node kinds x root attributes x option grid, library + CLI) vs independent grammar validator",
    text="Every document of the bounded grammar (all child sequences up to length 2/3 over ~40 leaf kinds and ~250 group kinds, root attribute settings, ndigits 0..6 x allow_text x drop_unsupported, plus the CLI in a subprocess) is converted and the serialised result is validated by an independent implementation of the README grammar (stdlib XML parser + R1 path parser). Exhaustive within the bounds.",
    note="Trusted: R4 validator (mc/ref/picogrammar.py), R1 path grammar. Tree shapes beyond 3 top-level children / depth 3 and attribute values outside the alphabets are not covered.",
    design="DESIGN.md 3/C01",
)
CLAIMED["C11"] = dict(
    level="exploration",
    technique="bounded-exhaustive enumeration (transform-list products x separator styles; exact int/Fraction lattices for the algebra; rectangle lattice x alignments for viewport mapping) vs reference affine model",
    text="Transform lists of 1-3 (1-5) operations x separator styles are parsed by Affine2D.fromstring and compared with the specification product; the real Affine2D is run on exact rational entries over complete finite lattices (all 6^6 matrices, all ordered pairs of a 3^6 / 4^6 lattice, sparse triples) for inverse / composition order / associativity / string round trip; rect_to_rect is checked for every src/dst pair of a rectangle lattice x 10 alignments x meet/slice against the spec algorithm and geometric post-conditions in exact arithmetic. The 'for all reals' laws are only checked on the lattices (bounded claim).",
    note="Trusted: R2 (mc/ref/affine.py). Angle operations compared with 1e-9 relative tolerance, rational ones exactly.",
    design="DESIGN.md 3/C11",
)
CLAIMED["C08"] = dict(
    level="exploration",
    technique="bounded-exhaustive enumeration of reference-sharing documents (gradient setups x colliding ids x referrer sequences) with a reference-graph oracle on the output",
    text="Every document of a bounded grammar of reference-complete sources (gradient setups incl. href chains, pre-existing ids colliding with generated ids, every sequence of up to 2/3 referrers of 10 kinds incl. invisible ones, stroked shapes with ids, use instancing, nested svg, clipPath) is converted; the output's reference graph is rebuilt with the stdlib XML parser and checked for unique ids, resolvable url(#..) into defs gradients, no unreferenced gradient, no href.",
    note="Trusted: the reference-graph extraction (mc/props/c08.py). Bounded: <= 3 referrers, 2-3 gradients.",
    design="DESIGN.md 3/C08",
)
CLAIMED["C14"] = dict(
    level="exploration",
    technique="deviation-bounded exhaustive metamorphic enumeration: all single (and all pairs of) noise insertions at every tree position of a base corpus; oracle = canonical equality of conversions",
    text="For every base document (24 generated + repository inputs) every single insertion of every ignorable-content kind at every tree position (thorough: every pair of insertions on the generated set) is converted and compared, after canonical gradient-id relabelling, with the conversion of the clean document. Exhaustive within 1 (2) deviations.",
    note="Trusted: noise construction via lxml and the canonical form in mc/props/c14.py. Unused xmlns declarations are reported, not judged.",
    design="DESIGN.md 3/C14",
)
CLAIMED["C07"] = dict(
    level="model_checking",
    engine="E1",
    technique="explicit-state exploration of the conversion function's state graph (documents as states, convert as the only action) from every root of the enumerated corpora; fixed-point invariant checked on every chain",
    text="The graph root -> out1 -> out2 -> out3 is explored from every document of the enumerated corpora (C01/C08 grammars, rendering corpora, repository files) at ndigits 3 and a cross-section of all ndigits; the invariant out2 == out1 == out3 (bytes) and checkpicosvg(out1) == () is evaluated on every chain. States and transitions are counted; every transition is an execution of the implementation.",
    note="Trusted: nothing beyond byte comparison. Bounded by the corpora, which are exhaustive enumerations of their grammars.",
    design="DESIGN.md 3/C07",
)
CLAIMED["C15"] = dict(
    level="model_checking",
    engine="E1",
    technique="explicit-state breadth-first exploration of live SVG objects (53-action alphabet, canonical-state dedup, per-transition differential oracle lazy vs serialise-and-reparse)",
    text="Breadth-first search over the reachable states of real SVG objects from several root documents under an alphabet of 53 actions (21 operation variants x in-place/copy, append_to, 10 queries); states are deduplicated by (tree bytes, shape cache); every (state, action) pair is executed and judged by the differential oracle (lazy == eager, copy semantics, in-place return). Depth 3 completed in quick (the statement's exhaustive bound), deeper / to closure in thorough within a time cap that is reported. By induction over histories the per-transition oracle implies the whole-history statement for all histories whose states were reached.",
    note="Trusted: canonical-state soundness argument (DESIGN 3/C15), lxml C14N for comparison. Queries are judged by lazy==eager only.",
    design="DESIGN.md 3/C15",
)
CLAIMED["C16"] = dict(
    level="model_checking",
    engine="E1",
    technique="explicit-state exploration of the Python process (digest of all picosvg module-level mutable state, fork as snapshot, one fork per action) to closure + enumeration of hash seeds x fresh/long-lived processes x batch permutations",
    text="Part A enumerates PYTHONHASHSEED values x fresh vs long-lived interpreter x CLI over a corpus and compares every output hash with the document's solo conversion. Part B explores the state graph of the process itself: the state is a structural digest of every global of picosvg.* (class dicts, function defaults/closures, lru_cache sizes, module dicts), an action converts one document of the alphabet in a fork of the state; all ordered pairs are run concretely and the canon-deduplicated BFS continues until the state set closes, which extends the verdict to histories of any length over the alphabet; all 24 permutations of six 4-document batches are run too.",
    note="Assumes that state hidden in C extensions (lxml, Skia) is not history-carrying beyond what Part A / permutation runs exercise; hash seeds outside the enumerated set are not covered.",
    design="DESIGN.md 3/C16",
)
CLAIMED["C17"] = dict(
    level="exploration",
    engine="E3",
    technique="exhaustive enumeration of small reference graphs (all cycles / dangling / wrong-kind targets), chains, malformed values and entity documents, each executed under a CPU-time and memory watchdog with an open() monitor",
    text="Every reference graph with up to 2 (3) nodes over 9 node kinds with every reference slot pointing at nothing / itself / every other node / a dangling id, inside and outside defs, plus chains, cycles and doubling chains, ~600 malformed-value documents and 7 DOCTYPE/entity documents are converted in a sandboxed fork with a 10 s CPU-time budget and a 1 GiB address-space limit; outcome must be 'returned a grammar-conforming document' or 'raised'; external-entity canary files are watched with strace.",
    note="Termination is established only for the enumerated documents; a TIMEOUT is evidence, not a proof, of non-termination. Trusted: R4, the sandbox (mc/sandbox.py), strace/inotify for the entity monitor.",
    design="DESIGN.md 3/C17",
)
RENDER_NOTE = "Trusted: the reference renderer R3 (mc/ref/scene.py, rule set in DESIGN Appendix A, self-tested against analytic cases and cross-checked against Skia's point containment), R1/R2. Verdicts hold at the enumerated sample points (lattice + edge probes) outside the 0.4% band only."
CLAIMED["C02"] = dict(
    level="exploration",
    technique="bounded-exhaustive enumeration of structural documents (shape x transform lists, ancestor chains of g/use/nested svg, instancing arrangements, viewport parameter products) rendered by an independent point evaluator before and after conversion",
    text="Every document of four finite families is converted; source and output are rendered by the independent evaluator R3 at a fixed lattice plus geometry-derived probe points and compared by canonical paint stack (order, colours, alphas) and composited colour. Exhaustive over the stated document families; a bounded claim over a continuous domain.",
    note=RENDER_NOTE,
    design="DESIGN.md 3/C02",
)
CLAIMED["C03"] = dict(
    level="exploration",
    technique="bounded-exhaustive enumeration of clip configurations (children x clip-rule carriers x transforms x targets x nested clip x clipped ancestors) rendered by an independent point evaluator before and after conversion",
    text="Every configuration of a finite clip grammar (1-3 clipPath children from a library where nonzero and evenodd differ, clip-rule on the child / in its style / inherited from the clipPath, transforms on clipPath and child, four target kinds, clipped clipPath, 0-2 clipped and transformed ancestors) is converted and compared with the source under the reference renderer's set-theoretic clip semantics at lattice and probe points.",
    note=RENDER_NOTE + " For a clipPath with both a transform and its own clip-path the inner reference is resolved in the user space including that transform (stated reading).",
    design="DESIGN.md 3/C03",
)
CLAIMED["C04"] = dict(
    level="exploration",
    technique="bounded-exhaustive enumeration of stroke parameter products, judged by an independent three-valued (inside / outside / undecided) classifier of the ideal stroke region",
    text="Every combination of geometry x width x cap x join x miterlimit x dash array/offset x outer transform x carrier of the stroke properties x fill x opacities in the stated product is converted; at every sample point that the reference classifies as definitely inside or definitely outside the ideal stroke (computed in the shape's own coordinate system, delta = 0.5) the output must show the stroke paint directly above the fill with the right alpha. A violation is additionally attributed (by re-converting with svg_pathops.stroke's simplify() skipped) so that the recorded Skia defect is matched precisely.",
    note=RENDER_NOTE + " The undecided zone (caps, joins, dash ends, within delta of the outline) is not checked.",
    design="DESIGN.md 3/C04",
)
CLAIMED["C05"] = dict(
    level="exploration",
    technique="deviation-bounded exhaustive enumeration (all placements of 0-2 / 3 property settings in template trees) rendered by an independent evaluator incl. cascade and group-opacity compositing",
    text="All documents obtained from three template trees by 0, 1 or 2 (thorough: 3) property settings (level x property x attribute/style/both x value incl. explicit defaults and zero opacity) are converted; canonical paint stacks and composited colours are compared at lattice/probe points, and vanished content must be absent from the output.",
    note=RENDER_NOTE + " Scope exclusion: visible stroke together with an opacity 0.5 setting (C04's scope).",
    design="DESIGN.md 3/C05",
)
CLAIMED["C06"] = dict(
    level="exploration",
    technique="bounded-exhaustive enumeration of gradient configurations x shapes x transform chains, judged by an independent gradient evaluator (raw parameter and colour at every interior lattice point)",
    text="Every member of the product kind x coordinate style x units x gradientTransform x spread x href pattern x radial focus x shape x transform chain is converted; for each lattice point strictly inside the shape the raw gradient parameter (1e-3) and the colour (2.5/255) computed from the source gradient must equal those computed from the output gradient; output gradients must be self-contained.",
    note=RENDER_NOTE,
    design="DESIGN.md 3/C06",
)
CLAIMED["C13"] = dict(
    level="exploration",
    technique="bounded-exhaustive enumeration of operand tuples x fill rules x operations x API level, judged by an independent winding-number oracle at lattice points",
    text="Every operand tuple (length 1-2 full, 3-4 over sub-libraries) from 12 outlines at 3 offsets x a fill rule per operand x the four operations, through svg_pathops, the shape-level wrappers and SVGPath.remove_overlaps, plus a degenerate family, is executed; the result's interior (under nonzero and evenodd) is compared with the set combination of the operands' interiors at every lattice point outside a 0.3 band.",
    note="Trusted: R1 interpreter, winding evaluator (cross-checked against Skia's contains in the self-tests). Lattice points only.",
    design="DESIGN.md 3/C13",
)
CLAIMED["C18"] = dict(
    level="exploration",
    technique="bounded-exhaustive enumeration of degenerate geometries x paint attribute products, judged by exact hand-computed areas and by rendering before/after removal",
    text="A library of 24 (mostly degenerate) geometries with exactly known painted area under both fill rules is combined with every combination of fill, stroke, stroke-width, three opacities and display as attributes / style / contradicting both; might_paint() must be True whenever the reference says the shape paints; remove_unpainted_shapes() and remove_empty_subpaths() results are rendered by R3 and must equal the original.",
    note="Trusted: hand-computed areas in mc/props/c18.py, R3. Slivers with 0 < area <= 1e-4 are undecided.",
    design="DESIGN.md 3/C18",
)
CLAIMED["C19"] = dict(
    level="exploration",
    technique="bounded-exhaustive enumeration of shape placements relative to the viewBox (5x5 grid x viewBoxes x shape kinds, pairs, groups) rendered before/after; exact-extrema bounding boxes for a shape library",
    text="Pico documents with every shape of a library at every position of a 5x5 placement grid (inside, outside, straddling each side and corner) for three viewBoxes, pairs of shapes, kept groups and covering shapes are clipped with clip_to_viewbox (copy, in-place, CLI) and compared with the same document under a reference clip to the viewBox rectangle; bounding boxes are compared with exact extrema boxes (derivative roots / ellipse parametrisation).",
    note=RENDER_NOTE + " Rounding of clipped coordinates is not judged (clip_to_viewbox has no ndigits contract).",
    design="DESIGN.md 3/C19",
)
CLAIMED["C20"] = dict(
    level="exploration",
    technique="bounded-exhaustive enumeration of (outline, affine map, tolerance) triples incl. near misses, unrelated pairs and flag toggles; every reported transform re-verified by an independent model",
    text="For 15 outlines x ~170 affine maps x 4 tolerances (plus near misses, identical pairs, unrelated pairs, toggled arc flags) affine_between is called; whenever it reports a transform, the reference model applies it to the first outline's relative command form and requires every vector of the second outline within tolerance (arcs as point sets, absolute drift ceiling); identical shapes must give the identity and pure translations must be found.",
    note="Trusted: R1/R2. 'Command for command' is read on the relative command form (weaker reading).",
    design="DESIGN.md 3/C20",
)
NOT_YET = "check not built yet in this session (design in DESIGN.md section 3); no claim is made"

checks = []
for pid in ALL:
    if pid not in CLAIMED:
        continue
    c = CLAIMED[pid]
    checks.append({
        "property_id": pid,
        "quick_cmd": f"./check {pid} quick",
        "thorough_cmd": f"./check {pid} thorough",
        "evidence_file": f"/verif/evidence/{pid}.json",
        "replay_cmd_template": f"./check {pid} --replay {{path}}",
        "engine": c.get("engine", "E2"),
        "level_claimed": {"category": c["level"], "text": c["text"], "design_ref": c["design"]},
        "level_note": c["note"],
        "technique": c["technique"],
    })
man = {
    "version": 1,
    "setup_cmd": "./setup.sh",
    "hooks": {
        "guard": "PICOSVG_VERIF",
        "enable": "no source hooks: checks import picosvg from /repo/src of the working tree (PYTHONPATH) in a fresh interpreter; PICOSVG_VERIF=1 is exported by ./check but read by nothing in /repo",
        "baseline_off_cmd": "cd /repo && /venv/bin/python -m pytest -ra -q -p no:cacheprovider --timeout=900 --continue-on-collection-errors",
        "source_commits": [],
        "add_only": True,
    },
    "engines": [
        {"name": "E1", "path": "mc/explore.py", "serves_properties": ["C07", "C15", "C16"], "kind_free_text": "explicit-state BFS over the real object / process with canonical-state dedup"},
        {"name": "E2", "path": "mc/core.py", "serves_properties": [p for p in ALL if p not in ("C07", "C15", "C16", "C17")], "kind_free_text": "bounded-exhaustive case enumeration on the implementation vs reference models R1-R4"},
        {"name": "E3", "path": "mc/sandbox.py", "serves_properties": ["C17"], "kind_free_text": "adversarial enumeration under a CPU/memory watchdog"},
    ],
    "checks": checks,
    "not_applicable": [{"property_id": p, "reason": NOT_YET} for p in ALL if p not in CLAIMED],
    "notes": "All checks: ./check <ID> quick|thorough, ./check <ID> --replay <file>. Known findings / fixed defects: known_findings.json. Seeded breaking changes: seeded/.",
}
with open(os.path.join(V, "MANIFEST.json"), "w") as f:
    json.dump(man, f, indent=1)
    f.write("\n")
try:
    sys.path.insert(0, os.path.join(V, ".deps"))
    import jsonschema
    jsonschema.validate(man, json.load(open(os.path.join(V, "schemas/MANIFEST.schema.json"))))
    print("MANIFEST.json valid;", len(checks), "checks,", len(man["not_applicable"]), "not_applicable")
except ImportError:
    print("MANIFEST.json written (jsonschema unavailable)")
