#!/venv/bin/python
"""tools/eval_seed.py <ID> <X> <check-id>[,<check-id>...]
Confirm a sub-agent's seeded change independently and run our checks against it.
 1. scratch worktree of /repo HEAD (outside /repo and /verif), apply patch
 2. repository test suite (stable_pass list) must still pass
 3. demo.py must exit non-zero with the patch and zero without
 4. apply the patch to /repo, run the listed quick checks, revert
Result: /verif/seeded/<ID>-<X>/{patch.diff, demo.py, meta.json}"""
import json, os, shutil, subprocess, sys, time

pid, x, checks = sys.argv[1], sys.argv[2], sys.argv[3].split(",")
src = f"/tmp/seeded_out/{pid}/{x}"
dst = f"/verif/seeded/{pid}-{x}"
wt = f"/tmp/sw/{pid}{x}"
run = lambda cmd, **kw: subprocess.run(cmd, shell=True, capture_output=True, text=True, **kw)
meta = {"property": pid[:3], "variant": x, "round": int(pid[4]) if len(pid) > 4 and pid[3] == "v" else 1}
notes = {}
try:
    notes = json.load(open(f"{src}/notes.json"))
except Exception as e:
    notes = {"error": str(e)}
meta["summary"] = notes.get("summary")
meta["needs_to_manifest"] = notes.get("needs_to_manifest")
os.makedirs("/tmp/sw", exist_ok=True)
run(f"git -C /repo worktree remove --force {wt}")
r = run(f"git -C /repo worktree add -q --detach {wt} HEAD")
try:
    a = run(f"git -C {wt} apply {src}/patch.diff")
    meta["applies_to_head"] = a.returncode == 0
    if a.returncode != 0:
        a = run(f"git -C {wt} apply -3 {src}/patch.diff")
        meta["applies_with_3way"] = a.returncode == 0
        if a.returncode != 0:
            meta["apply_error"] = a.stderr[-400:]
            raise SystemExit
        run(f"git -C {wt} diff > /tmp/sw/{pid}{x}.rebased.diff")
    b = run(f"/verif/tools/baseline.py {wt}")
    meta["repo_tests_with_patch"] = b.stdout.strip().splitlines()[0] if b.stdout else b.stderr[-200:]
    meta["repo_tests_ok"] = b.returncode == 0
    d1 = run(f"cd /tmp && PYTHONPATH={wt}/src timeout 600 /venv/bin/python {src}/demo.py")
    meta["demo_with_patch_exit"] = d1.returncode
    meta["demo_with_patch_tail"] = (d1.stdout + d1.stderr)[-300:]
    patch_text = run(f"git -C {wt} diff").stdout
    run(f"git -C {wt} checkout -- .")
    d0 = run(f"cd /tmp && PYTHONPATH={wt}/src timeout 600 /venv/bin/python {src}/demo.py")
    meta["demo_without_patch_exit"] = d0.returncode
    meta["confirmed"] = bool(meta["repo_tests_ok"] and d1.returncode != 0 and d0.returncode == 0)
finally:
    run(f"git -C /repo worktree remove --force {wt}")
os.makedirs(dst, exist_ok=True)
if meta.get("applies_to_head") is False and meta.get("applies_with_3way"):
    open(f"{dst}/patch.diff", "w").write(patch_text)
else:
    shutil.copy(f"{src}/patch.diff", f"{dst}/patch.diff")
shutil.copy(f"{src}/demo.py", f"{dst}/demo.py")
meta["checks"] = {}
if meta.get("confirmed"):
    run(f"git -C /repo worktree remove --force {wt}")
    run(f"git -C /repo worktree add -q --detach {wt} HEAD")
    try:
        ap = run(f"git -C {wt} apply {dst}/patch.diff")
        for c in checks:
            t = time.time()
            o = run(f"cd /verif && VERIF_REPO={wt} VERIF_NO_EVIDENCE=1 timeout 1500 ./check {c} quick")
            viol = [l for l in o.stdout.splitlines() if l.startswith("VIOLATION")]
            first = ""
            lines = o.stdout.splitlines()
            for i, l in enumerate(lines):
                if l.startswith("VIOLATION") and i + 1 < len(lines):
                    first = lines[i + 1].strip()[:300]
                    break
            meta["checks"][c] = {"exit": o.returncode, "detected": o.returncode == 1 and bool(viol), "violation_lines": len(viol), "first": first, "wall_s": round(time.time() - t, 1)}
    finally:
        run(f"git -C /repo worktree remove --force {wt}")
# a re-evaluation (after the checks were strengthened) must not overwrite the first-round record
try:
    old = json.load(open(f"{dst}/meta.json"))
    if old.get("checks"):
        meta["later_checks"] = meta["checks"]
        meta["checks"] = old["checks"]
    for k in ("status_after_fix", "current"):
        if k in old:
            meta[k] = old[k]
except Exception:
    pass
meta["what_was_run"] = "tools/eval_seed.py: scratch worktree + tools/baseline.py (repo suite), demo.py with/without patch, then ./check <id> quick against a scratch worktree of /repo HEAD with the patch applied (VERIF_REPO), /repo itself untouched"
json.dump(meta, open(f"{dst}/meta.json", "w"), indent=1)
print(json.dumps({k: meta[k] for k in ("property", "variant", "confirmed", "repo_tests_ok", "demo_with_patch_exit", "demo_without_patch_exit", "applies_to_head") if k in meta}))
for c, v in (meta.get("later_checks") or meta["checks"]).items():
    print(f"  {c}: {'DETECTED' if v['detected'] else 'MISSED'} exit={v['exit']} {v['first'][:200]}")
