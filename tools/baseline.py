#!/venv/bin/python
"""Run the repository's pinned test suite (guard OFF) in DIR (default /repo) and
compare with the stable_pass list of /root/.vp/BASELINE.json.  Exit 0 iff every
stable-pass test still passes."""
import json, os, subprocess, sys, tempfile
import xml.etree.ElementTree as ET

d = sys.argv[1] if len(sys.argv) > 1 else "/repo"
base = json.load(open("/root/.vp/BASELINE.json"))
want = set(base["stable_pass"])
with tempfile.TemporaryDirectory() as td:
    jx = os.path.join(td, "j.xml")
    env = {k: v for k, v in os.environ.items() if k != "PICOSVG_VERIF"}
    env["PYTHONPATH"] = os.path.join(d, "src")
    p = subprocess.run(
        ["/venv/bin/python", "-m", "pytest", "-ra", "-q", "-p", "no:cacheprovider", "--timeout=900",
         "--continue-on-collection-errors", f"--junitxml={jx}"],
        cwd=d, env=env, stdout=subprocess.PIPE, stderr=subprocess.STDOUT, text=True)
    passed = set()
    for tc in ET.parse(jx).getroot().iter("testcase"):
        if not any(ch.tag in ("failure", "error", "skipped") for ch in tc):
            passed.add(f"{tc.get('classname')}::{tc.get('name')}")
missing = sorted(want - passed)
print(f"stable_pass={len(want)} passed_now={len(passed)} missing={len(missing)}")
for m in missing[:20]:
    print("  NOT PASSING:", m)
sys.exit(1 if missing else 0)
