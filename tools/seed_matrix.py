#!/venv/bin/python
"""Re-run, for every seeded change under /verif/seeded, the quick check of the property it breaks
(in a scratch worktree, /repo untouched) and write seeded/README.md.  Usage: tools/seed_matrix.py [ID-X ...]"""
import glob, json, os, subprocess, sys, time

V = "/verif"
run = lambda cmd, **kw: subprocess.run(cmd, shell=True, capture_output=True, text=True, **kw)
only = set(sys.argv[1:])
rows = []
for d in sorted(glob.glob(f"{V}/seeded/*/")):
    name = os.path.basename(d.rstrip("/"))
    mp = f"{d}meta.json"
    if name.startswith("own-"):
        continue
    if not os.path.exists(mp):
        continue
    meta = json.load(open(mp))
    if only and name not in only:
        rows.append((name, meta))
        continue
    if meta.get("status_after_fix", "").startswith("obsolete") or not meta.get("confirmed"):
        rows.append((name, meta))
        continue
    wt = f"/tmp/sw/m-{name}"
    os.makedirs("/tmp/sw", exist_ok=True)
    run(f"git -C /repo worktree remove --force {wt}")
    run(f"git -C /repo worktree add -q --detach {wt} HEAD")
    try:
        a = run(f"git -C {wt} apply {d}patch.diff")
        if a.returncode != 0:
            a = run(f"git -C {wt} apply -3 {d}patch.diff")
        if a.returncode != 0:
            meta["current"] = {"applies": False, "note": a.stderr[-200:]}
        else:
            pid = meta["property"]
            t = time.time()
            o = run(f"cd {V} && VERIF_REPO={wt} VERIF_NO_EVIDENCE=1 timeout 1800 ./check {pid} quick")
            lines = o.stdout.splitlines()
            first = ""
            for i, l in enumerate(lines):
                if l.startswith("VIOLATION") and i + 1 < len(lines):
                    first = lines[i + 1].strip()[:240]
                    break
            demo_exit = None
            sibling = None
            if not (o.returncode == 1 and any(l.startswith("VIOLATION") for l in lines)):
                # the sibling checks it was evaluated with: does one of them report it (now)?
                for c2, v2 in (meta.get("checks") or {}).items():
                    if c2 != pid:
                        o2 = run(f"cd {V} && VERIF_REPO={wt} VERIF_NO_EVIDENCE=1 timeout 1800 ./check {c2} quick")
                        if o2.returncode == 1 and "VIOLATION" in o2.stdout:
                            sibling = c2
                            break
                # not detected: does the demonstration still fail on the current tree with the change?
                dm = run(f"cd /tmp && PYTHONPATH={wt}/src timeout 600 /venv/bin/python {d}demo.py")
                demo_exit = dm.returncode
            meta["current"] = {"applies": True, "demo_exit_with_patch_now": demo_exit, "detected_by_sibling": sibling, "check": pid, "exit": o.returncode, "detected": o.returncode == 1 and any(l.startswith("VIOLATION") for l in lines), "first": first, "wall_s": round(time.time() - t, 1), "verif_commit": run(f"git -C {V} rev-parse --short HEAD").stdout.strip()}
    finally:
        run(f"git -C /repo worktree remove --force {wt}")
    json.dump(meta, open(mp, "w"), indent=1)
    print(name, meta.get("current"), flush=True)
    rows.append((name, meta))

with open(f"{V}/seeded/README.md", "w") as f:
    f.write("# Seeded property-breaking changes\n\nEach directory holds a change written by an independent sub-agent that saw only the property text\n(`patch.diff`), its demonstration (`demo.py`: exits 1 with the change, 0 without) and `meta.json`.\nAll were confirmed here: the repository's 356 stable tests still pass with the change, the demo fails with it and passes without it.\n`first round` = result of the quick check(s) when the change was first evaluated; `now` = the property's quick check at the current state of /verif (`tools/seed_matrix.py`).\n\n| id | property | what it breaks / needs | first round | now |\n|---|---|---|---|---|\n")
    for name, m in rows:
        first = ", ".join(f"{c}:{'detected' if v.get('detected') else 'missed'}" for c, v in (m.get("checks") or {}).items()) or "-"
        cur = m.get("current") or {}
        if m.get("status_after_fix"):
            now = m["status_after_fix"]
        elif cur.get("detected"):
            now = "detected"
        elif cur.get("detected_by_sibling"):
            now = f"detected by {cur['detected_by_sibling']} (multi-step / neighbouring property), not by {m.get('property')}'s own check"
        elif cur.get("applies") and cur.get("demo_exit_with_patch_now") == 0:
            now = "neutralised: a later fix: commit makes the change harmless (its own demonstration passes with the change applied)"
        elif cur.get("applies"):
            now = "MISSED"
        else:
            now = "obsolete: the code it edits was replaced by a later fix: commit (patch no longer applies)"
        what = (m.get("summary") or "")[:160].replace("|", "/").replace("\n", " ")
        need = (m.get("needs_to_manifest") or "")[:160].replace("|", "/").replace("\n", " ")
        f.write(f"| {name} | {m.get('property')} | {what} — needs: {need} | {first} | {now} |\n")
print("written seeded/README.md")
